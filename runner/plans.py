"""Per-property plans: which engines/configurations/instrumentation to run, how to judge."""
import json, os, sys, subprocess, time, shutil, re, glob
from common import *  # noqa: F401,F403
import common

PY = sys.executable or "python3"


def B(x):
    """Scale a budget (seconds)."""
    return max(1.0, x * common.budget_scale())


# ---------------------------------------------------------------------------- generic driver

def crash_isolate(prop, r, sd, workdir):
    """A shard died without a summary: re-run it announcing each case, then replay the last case alone.
    Returns a violation dict if the crash reproduces on a single input, else None."""
    job = r.job
    res = run_shard(job, r.idx, prop, sd, workdir, ["--announce", "1"])
    last = None
    for line in res.stderr.splitlines():
        if line.startswith("CASE "):
            last = line[5:].strip()
    if last is None:
        return None
    fmt, key = last.split(" ", 1)
    if key.startswith("@"):
        keyfile = key[1:]
    else:
        keyfile = os.path.join(workdir, "crash-%s-%d.case" % (job.name, r.idx))
        open(keyfile, "w").write(key)
    single = run_shard(job, 0, prop, sd, workdir, ["--case-file", keyfile, "--fmt", fmt])
    if single.summary is None and not single.timed_out:
        keep = os.path.join(REPLAYS, "%s-crash-%s.case" % (prop, job.name))
        shutil.copyfile(keyfile, keep)
        body = {"property": prop, "engine": job.engine, "config": job.cfg, "profile": job.prof, "instr": job.instr, "fmt": fmt, "what": "process crash (%s)" % single.rc,
                "case_key_file": keep, "stderr_tail": tail(single.stderr, 15)}
        path = write_replay(prop, sd, abs(hash(keep)) % 100000, body)
        return {"sig": "crash:%s:%s" % (job.cfg, fmt), "what": "process died (rc=%s) on a single input" % single.rc, "replay": path, "job": job.name}
    return None


def hang_isolate(prop, r, sd, workdir):
    """C04 restates 'returns a value' as bounded progress: a shard that hit the watchdog is re-run announcing each
    case; if it stalls again, the last announced input is replayed alone with a 60 s limit; only if that single
    call still does not return is it reported (anything else stays inconclusive)."""
    job = r.job
    old = job.timeout
    job.timeout = job.budget + 45
    try:
        res = run_shard(job, r.idx, prop, sd, workdir, ["--announce", "1"])
    finally:
        job.timeout = old
    if not res.timed_out:
        return None
    last = None
    for line in res.stderr.splitlines():
        if line.startswith("CASE "):
            last = line[5:].strip()
    if last is None:
        return None
    fmt, key = last.split(" ", 1)
    if key.startswith("@"):
        keyfile = key[1:]
    else:
        keyfile = os.path.join(workdir, "hang-%s-%d.case" % (job.name, r.idx))
        open(keyfile, "w").write(key)
    job.timeout = 60
    try:
        single = run_shard(job, 0, prop, sd, workdir, ["--case-file", keyfile, "--fmt", fmt])
    finally:
        job.timeout = old
    if single.timed_out:
        keep = os.path.join(REPLAYS, "%s-hang-%s.case" % (prop, job.name))
        shutil.copyfile(keyfile, keep)
        body = {"property": prop, "engine": job.engine, "config": job.cfg, "profile": job.prof, "instr": job.instr, "fmt": fmt,
                "what": "a single call did not return within 60 s (bounded progress)", "case_key_file": keep}
        path = write_replay(prop, sd, 600000 + r.idx, body)
        return {"sig": "hang:%s:%s" % (job.cfg, fmt), "what": body["what"], "replay": path, "job": job.name}
    return None


def python_recheck(workdir, maxlines):
    logs = sorted(glob.glob(os.path.join(workdir, "*.log")))
    logs = [l for l in logs if os.path.getsize(l) > 0]
    if not logs:
        return {"checked": 0, "mismatches": [], "n_mismatches": 0}
    p = subprocess.run([PY, os.path.join(VERIF, "pyoracle", "recheck.py"), "--max", str(maxlines)] + logs, stdout=subprocess.PIPE, stderr=subprocess.PIPE, text=True, timeout=900)
    if p.returncode != 0:
        return {"checked": 0, "mismatches": [], "n_mismatches": 0, "error": tail(p.stderr, 5)}
    return json.loads(p.stdout)


def generic(prop, tier, jobs, rule, assumptions, level="exploration", recheck=0, post=None, extra_cov=None, exhaustive=None):
    """Run jobs, merge, judge by the monitors' own reports (+ required coverage), write evidence."""
    t0 = time.time()
    sd = seed()
    workdir = fresh_workdir(prop)
    inconclusive = []
    violations = []
    try:
        results = run_jobs(prop, jobs, sd, workdir)
    except BuildError as e:
        print(str(e))
        inconclusive.append("harness does not build against the current tree (see above)")
        results = []
    m = merge(results)
    for (r, why) in abnormal(results):
        v = None
        srep = sanitizer_report(r)
        if srep is not None:
            if srep.get("frame") is None and srep.get("maybe_harness"):
                inconclusive.append("%s shard %d: %s reported '%s' outside the crate under test (harness problem)" % (r.job.name, r.idx, srep["tool"], srep["message"]))
                continue
            body = {"property": prop, "engine": r.job.engine, "config": r.job.cfg, "profile": r.job.prof, "instr": r.job.instr, "what": "%s: %s" % (srep["kind"], srep["message"]),
                    "first_frame_in_crate": srep.get("frame"), "report": srep["excerpt"], "command": r.cmd,
                    "shard_replay": {"idx": r.idx, "shards": r.job.shards, "seed": sd, "budget": r.job.budget, "job_args": r.job.args, "miriflags": getattr(r.job, "miriflags", "")}}
            path = write_replay(prop, sd, 900000 + len(violations), body)
            violations.append({"sig": "%s:%s:%s" % (srep["tool"], srep.get("frame"), srep["message"][:80]), "what": "%s %s at %s (%s %s/%s)" % (srep["tool"], srep["kind"], srep.get("frame"), r.job.instr, r.job.cfg, r.job.prof), "replay": path, "job": r.job.name})
            continue
        if not r.timed_out and r.job.engine == "eng_parse":
            v = crash_isolate(prop, r, sd, workdir)
        if r.timed_out and r.job.engine == "eng_parse" and prop == "C04":
            if sum(1 for x in violations if x.get("sig", "").startswith("hang:")) >= 2:
                continue  # two isolated witnesses are enough; do not spend minutes on every stalled shard
            v = hang_isolate(prop, r, sd, workdir)
        if v:
            violations.append(v)
        else:
            inconclusive.append("%s shard %d: %s; stderr: %s" % (r.job.name, r.idx, why, tail(r.stderr, 3).replace("\n", " | ")))
    violations += m.violations
    inconclusive += m.inconclusive
    # required coverage classes (fail closed)
    for k, js in sorted(m.required.items()):
        if m.counters.get(k, 0) == 0:
            inconclusive.append("required coverage class '%s' was never observed (jobs: %s)" % (k, ",".join(sorted(js))))
    cov = {
        "evaluations": m.evals,
        "distinct_nontrivial": m.distinct,
        "rule": rule + (" [distinct-hash sets were capped in at least one shard: the count is a lower bound]" if m.saturated else ""),
        "samples": m.samples[:16],
        "observed_counters": dict(sorted(m.counters.items())),
        "observed_maxima": m.maxima,
        "observed_minima": m.minima,
        "jobs": m.per_job,
    }
    if recheck:
        pr = python_recheck(workdir, recheck)
        cov["python_offline_rechecked"] = pr.get("checked", 0)
        cov["python_offline_mismatches"] = pr.get("n_mismatches", 0)
        if pr.get("error"):
            inconclusive.append("offline python re-checker failed: %s" % pr["error"])
        for b in pr.get("mismatches", [])[:5]:
            inconclusive.append("ORACLE-DISAGREEMENT: python re-checker disagrees with the value the Rust oracle accepted: %s" % json.dumps(b))
        if results and pr.get("checked", 0) == 0 and not pr.get("error"):
            inconclusive.append("offline python re-checker saw no records")
    if post:
        post(m, results, cov, violations, inconclusive, workdir, sd)
    if extra_cov:
        cov.update(extra_cov)
    if exhaustive is not None:
        cov["exhaustive"] = bool(exhaustive(m, cov)) if callable(exhaustive) else bool(exhaustive)
    if m.evals == 0 and not inconclusive:
        inconclusive.append("no evaluations were performed")
    # evidence must satisfy the schema minimums even for a broken run
    cov["evaluations"] = max(cov["evaluations"], 0)
    write_evidence(prop, tier, sd, level, cov, assumptions, time.time() - t0, len(violations))
    print("%s %s: %d evaluations, %d distinct non-trivial, %.1fs" % (prop, tier, cov["evaluations"], cov["distinct_nontrivial"], time.time() - t0))
    return conclude(prop, violations, inconclusive)


ASSUME_ORACLE = [
    "the harness oracle (exact midpoint expansion + digit-string comparison, ~300 lines of Rust in harness/src/oracle.rs and bigref.rs) is correct; it is cross-checked on every run by the offline Python re-checker on a sample, by Rust std's parser on every disagreement, and by seeded defects",
    "x86_64 Linux, 64-bit limbs; 32-bit limbs / big-endian / x87 paths are not compiled here",
    "what was not generated was not observed: the claim is 'held on the executions counted here'",
]


def parse_jobs(prop, tier, cfgs_rel, cfgs_chk, shards_rel, shards_chk, budget, args=None):
    jobs = []
    for c in cfgs_rel:
        jobs.append(Job("eng_parse", c, "rel", shards=shards_rel, budget=B(budget), args=["--tier", tier] + list(args or [])))
    for c in cfgs_chk:
        jobs.append(Job("eng_parse", c, "chk", shards=shards_chk, budget=B(budget), args=["--tier", tier] + list(args or [])))
    return jobs


SHIPPED = os.path.join(common.REPO, "etc/correctness/test-parse-golang/parse-number-fxx-test-data/data")


def p_oracle(prop, tier):
    extra = []
    if prop in ("C01", "C02"):
        extra += ["--shipped-corpus", SHIPPED]
    if tier == "quick":
        jobs = parse_jobs(prop, tier, CFG5, ["default", "compact"], 4, 2, 12, extra + (["--midpoints", "4099", "--midpoints-budget", "0.35", "--short-sweep", "2039", "--short-sweep-budget", "0.6"] if prop == "C02" else []))
        rc = 30000
    else:
        jobs = parse_jobs(prop, tier, CFG8, CFG5, 8, 4, 75, extra + (["--midpoints", "257", "--midpoints-budget", "0.4", "--short-sweep", "127", "--short-sweep-budget", "0.6"] if prop == "C02" else []))
        if prop == "C02":
            # bounded-exhaustive: every significand below 2^32 x every exponent in [-22, 22] in the default configuration
            jobs.append(Job("eng_parse", "default", "rel", shards=16, budget=B(1500), args=["--tier", tier, "--short-sweep", "1", "--short-sweep-budget", "0.97", "--max-evals", "1"], name="eng_parse-default-rel-shortsweep", timeout=6000))
            # complete enumeration of all f32 rounding boundaries in the default configuration
            jobs.append(Job("eng_parse", "default", "rel", shards=16, budget=B(900), args=["--tier", tier, "--midpoints", "1", "--midpoints-budget", "0.97"], name="eng_parse-default-rel-allmidpoints", timeout=4000))
        rc = 400000
    if prop == "C01":
        # platform independence of the value: the same seeded inputs on a 32-bit target (32-bit limbs in the big-integer path),
        # executed by Miri for i686, must give the bits of the native x86_64 run (which the oracle judges)
        cnt = str(int((40 if tier == "quick" else 1500) * common.budget_scale()))
        for c in (["default"] if tier == "quick" else ["default", "alloc", "compact"]):
            jobs.append(Job("eng_mem", c, "rel", instr="miri-sb-i686", shards=2 if tier == "quick" else 4, budget=30000, args=["--max-evals", cnt, "--valid-only", "1", "--limb-max-digits", "100", "--max-digits", "330"], timeout=1800 if tier == "quick" else 7200))
            jobs.append(Job("eng_mem", c, "rel", shards=2 if tier == "quick" else 4, budget=30000, args=["--max-evals", cnt, "--valid-only", "1", "--limb-max-digits", "100", "--max-digits", "330"], name="eng_mem-%s-rel-twin" % c))
    what = {
        "C01": "f64 inputs",
        "C02": "f32 inputs (incl. double-rounding probes: cases where rounding via f64 first gives another f32)",
        "C06": "inputs with >= 20 significant digits, f64 and f32 alternating",
        "C07": "range-end inputs (thresholds to 0/inf, subnormals, zero significands, extreme and compensated exponents), f64 and f32",
    }[prop]
    rule = ("%s generated from rounding boundaries (exact midpoint/float expansions: exact, +zeros, +digit after k zeros, -1 with tail of nines, truncations, "
            "round-ups, nudges; deciding digit placed at the 19/20, 114/115, 769/770 cut-offs and 19-digit chunk ends), range ends, 19-digit exact ties, fast-path seams, "
            "continued-fraction hard cases and structured random strings, each laid out as integer-only / fraction-only with leading zeros / split; every result judged by the exact oracle. "
            "Non-trivial = not decided by the plain fast path; distinct = distinct 64-bit hash of (integer, fraction, exponent, format), counted per shard over disjoint PRNG streams and summed." % what)
    def post(m, results, cov, violations, inconclusive, workdir, sd):
        if prop == "C01":
            nat = {(r.job.cfg, r.idx, r.job.shards): r.summary["extra"].get("result_hash") for r in results if r.summary and r.job.engine == "eng_mem" and r.job.instr == "native"}
            same = diff = calls = 0
            for r in results:
                if r.summary and r.job.engine == "eng_mem" and r.job.instr == "miri-sb-i686":
                    k = (r.job.cfg, r.idx, r.job.shards)
                    calls += r.summary["evals"]
                    if k in nat and nat[k] == r.summary["extra"].get("result_hash"):
                        same += 1
                    else:
                        diff += 1
                        body = {"property": prop, "engine": "eng_mem", "config": r.job.cfg, "profile": r.job.prof, "instr": r.job.instr, "what": "results on a 32-bit target (i686, 32-bit limbs; executed by Miri) differ from the native x86_64 run of the same inputs",
                                "hashes": {"native": nat.get(k), "i686": r.summary["extra"].get("result_hash")}, "command": r.cmd,
                                "shard_replay": {"idx": r.idx, "shards": r.job.shards, "seed": sd, "budget": r.job.budget, "job_args": r.job.args + ["--print-results", "1"], "miriflags": ""}}
                        path = write_replay(prop, sd, 810000 + diff, body)
                        violations.append({"sig": "i686-differs:%s:%d" % (r.job.cfg, r.idx), "what": body["what"], "replay": path, "job": r.job.name})
            cov["i686_32bit_limbs"] = {"parse_float_calls_under_miri_i686": calls, "shards_equal_to_native_x86_64": same, "shards_different": diff}
            if calls == 0:
                inconclusive.append("no execution completed on the 32-bit target (miri i686)")
            return
        if prop != "C02":
            return
        ex = [(jn, e) for (jn, i, e) in m.extras if "f32_midpoint_stride" in e]
        cov["f32_midpoints_enumerated"] = m.counters.get("midpoints.enumerated", 0)
        cov["f32_midpoint_strides"] = sorted(set(int(e["f32_midpoint_stride"]) for (jn, e) in ex))
        full = [e for (jn, e) in ex if jn == "eng_parse-default-rel-allmidpoints"]
        cov["f32_all_midpoints_enumerated_in_default_configuration"] = bool(full) and len(full) == 16 and all(e.get("f32_midpoint_range_completed") for e in full)
        cov["exhaustive_scope"] = "all 2^31 - 2^23 f32 rounding boundaries x (tie, just above, just below) in the default configuration, thorough only, when the flag above is true; everything else is sampled"
        sw = [(jn, e) for (jn, i, e) in m.extras if "f32_short_sweep_stride" in e]
        cov["f32_short_sweep_cases"] = m.counters.get("short_sweep.cases", 0)
        cov["f32_short_sweep_strides"] = sorted(set(int(e["f32_short_sweep_stride"]) for (jn, e) in sw))
        fullsw = [e for (jn, e) in sw if jn == "eng_parse-default-rel-shortsweep"]
        cov["f32_every_significand_below_2^32_x_exponents_-22..22_in_default_configuration"] = bool(fullsw) and len(fullsw) == 16 and all(e.get("f32_short_sweep_range_completed") for e in fullsw)

    def exh(m, cov):
        return bool(cov.get("f32_all_midpoints_enumerated_in_default_configuration"))

    return generic(prop, tier, jobs, rule, ASSUME_ORACLE, recheck=rc, post=post, exhaustive=exh if prop == "C02" else None)


def p_c03(prop, tier):
    if tier == "quick":
        jobs = [Job("eng_parse", "default", "rel", shards=8, budget=B(20), args=["--tier", tier]),
                Job("eng_parse", "compact", "rel", shards=4, budget=B(20), args=["--tier", tier, "--stride32", "16001"]),
                Job("eng_parse", "alloc", "rel", shards=2, budget=B(20), args=["--tier", tier, "--stride32", "32003"]),
                Job("eng_parse", "nostd+compact", "rel", shards=2, budget=B(20), args=["--tier", tier, "--stride32", "32003"])]
    else:
        jobs = [Job("eng_parse", "default", "rel", shards=16, budget=B(600), args=["--tier", tier], timeout=3000)]
        for c in ["compact", "alloc", "compact+alloc", "nostd+compact"]:
            jobs.append(Job("eng_parse", c, "rel", shards=4, budget=B(100), args=["--tier", "quick", "--stride32", "257"]))
    rule = ("finite non-negative floats rendered three ways (shortest via std {:e}; 9/17 significant digits via std {:.8e}/{:.16e}; full exact expansion via the harness big integers) "
            "and parsed back; f32 patterns enumerated with a stride (quick) or completely (thorough, default configuration), f64: every biased exponent x structured fractions + random patterns. "
            "Non-trivial/distinct = distinct (bit pattern, rendering, format).")

    def exh(m, cov):
        ex = [e for (jn, i, e) in m.extras if jn.startswith("eng_parse-default-rel")]
        return tier == "thorough" and len(ex) > 0 and all(e.get("f32_stride") == 1 and e.get("f32_range_completed") for e in ex)

    def post(m, results, cov, violations, inconclusive, workdir, sd):
        ex = [e for (jn, i, e) in m.extras if jn.startswith("eng_parse-default-rel")]
        cov["f32_stride_default_cfg"] = sorted(set(e.get("f32_stride") for e in ex))
        cov["f32_enumeration_completed_in_all_shards"] = all(e.get("f32_range_completed") for e in ex) if ex else False
        cov["exhaustive_scope"] = "f32: all finite non-negative bit patterns x 3 renderings in the default configuration (thorough only, when completed); f64 is sampled"

    return generic(prop, tier, jobs, rule, ["the renderers (Rust std formatting, harness big integers) are trusted; a mismatch is only reported when the exact oracle confirms that the rendering rounds to the original float"] + ASSUME_ORACLE[1:], post=post, exhaustive=exh)


def p_c04(prop, tier):
    if tier == "quick":
        jobs = parse_jobs(prop, tier, ["default", "compact", "nostd+compact"], ["default", "compact", "alloc", "compact+alloc", "nostd+compact"], 2, 2, 18)
    else:
        jobs = parse_jobs(prop, tier, CFG8, CFG8, 4, 4, 100)
    rule = ("valid inputs only: a deterministic grid (22 lengths 0..10^6 x 5 digit patterns x 3 placements x 33 exponents incl. i32::MIN/MAX, plus exponents compensating the length), "
            "capacity maximisers (769+-2 / 114+-2 digits at the magnitudes that maximise the big-integer sizes) and the boundary/range-end/seam generators; f32 and f64; "
            "monitor = catch_unwind around each call + process exit status (abort/signal) + result not NaN/negative; rel = optimised without debug assertions, chk = debug assertions + overflow checks. "
            "Non-trivial = not decided by the plain fast path; distinct = distinct input hash.")
    return generic(prop, tier, jobs, rule, ["liveness ('returns') is restated as bounded progress: a call that exceeds the shard watchdog is reported inconclusive, not as a violation"] + ASSUME_ORACLE[1:])


def p_c05(prop, tier):
    cfgs = CFG5 if tier == "quick" else CFG8
    count = 2500000 if tier == "quick" else 30000000
    count = int(count * common.budget_scale())
    shards = 3 if tier == "quick" else 4
    if tier == "thorough":
        shards = 2
    jobs = [Job("eng_parse", c, "rel", shards=shards, budget=B(600), args=["--count", str(count), "--tier", tier], timeout=7200) for c in cfgs]
    jobs += [Job("eng_parse", c, "chk", shards=1, budget=B(600), args=["--count", str(count // 8), "--tier", tier], timeout=2400, name="eng_parse-%s-chk" % c.replace("+", "_")) for c in (["default", "compact"] if tier == "quick" else CFG5)]
    rule = ("the identical seeded stream of valid inputs (boundary, range-end, tie, seam, hard-case and random generators; f64 and f32 alternating) is parsed by every configuration's binary; "
            "a 64-bit hash of the result bits per 4096-case chunk is compared across configurations, a differing chunk is re-run with full output to name the input. "
            "Non-trivial = not decided by the plain fast path; distinct = distinct input hash (counted in the first configuration only).")

    def post(m, results, cov, violations, inconclusive, workdir, sd):
        # group chunk hashes by (profile, shard) across configurations
        table = {}
        for r in results:
            if r.summary is None:
                continue
            ch = r.summary.get("extra", {}).get("chunks")
            table.setdefault((r.job.prof, r.idx, r.job.shards), {})[r.job.cfg] = (ch, r)
        compared = 0
        per_cfg = {}
        for (prof, idx, n), by in sorted(table.items()):
            ref_cfg = sorted(by)[0] if "default" not in by else "default"
            ref, refr = by[ref_cfg]
            for c, (ch, r) in by.items():
                per_cfg.setdefault(c, {"chunks": 0})
                per_cfg[c]["chunks"] += len(ch or [])
                if c == ref_cfg:
                    continue
                if ch is None or ref is None or len(ch) != len(ref):
                    inconclusive.append("chunk lists of %s and %s (%s shard %d) cannot be compared" % (ref_cfg, c, prof, idx))
                    continue
                compared += len(ch)
                diff = [k for k in range(len(ch)) if ch[k] != ref[k]]
                for k in diff[:2]:
                    a = run_shard(refr.job, idx, prop, sd, workdir, ["--dump-chunk", str(k)])
                    b = run_shard(r.job, idx, prop, sd, workdir, ["--dump-chunk", str(k)])
                    da = [l.split() for l in a.stdout.splitlines() if l.startswith("DUMP ")]
                    db = [l.split() for l in b.stdout.splitlines() if l.startswith("DUMP ")]
                    found = 0
                    for x, y in zip(da, db):
                        if x[1:4] == y[1:4] and x[4] != y[4] and found < 3:
                            found += 1
                            body = {"property": prop, "engine": "eng_parse", "config": c, "profile": prof, "fmt": x[2], "what": "configurations disagree",
                                    "case_key": x[3] if len(x[3]) < 4000 else None, "results": {ref_cfg: x[4], c: y[4]}, "reference_config": ref_cfg}
                            if body["case_key"] is None:
                                kf = os.path.join(REPLAYS, "%s-%d-%s-%s.case" % (prop, sd, c.replace("+", "_"), x[1]))
                                open(kf, "w").write(x[3])
                                body["case_key_file"] = kf
                            path = write_replay(prop, sd, int(x[1]) % 1000000, body)
                            violations.append({"sig": "config-mismatch:%s:%s:%s" % (c, x[2], hashlib_sig(x[3])), "what": "%s returns %s, %s returns %s" % (ref_cfg, x[4], c, y[4]), "replay": path, "fmt": x[2]})
                    if found == 0:
                        inconclusive.append("chunk %d differs between %s and %s but no differing case was isolated" % (k, ref_cfg, c))
        cov["chunks_compared_across_configurations"] = compared
        cov["configurations"] = sorted(per_cfg)
        # decline rates per configuration show that both moderate algorithms and both back-ends really ran
        rates = {}
        for r in results:
            if r.summary:
                cs = r.summary.get("counters", {})
                d = rates.setdefault(r.job.cfg, {"declined": 0, "definite": 0, "slow": 0, "bellerophon": 0, "lemire_second": 0})
                d["declined"] += cs.get("path.moderate_declined", 0)
                d["definite"] += cs.get("path.moderate_definite", 0)
                d["slow"] += cs.get("path.slow_pos", 0) + cs.get("path.slow_neg", 0)
                d["bellerophon"] += cs.get("path.bellerophon", 0)
                d["lemire_second"] += cs.get("path.lemire_second_product", 0)
        cov["moderate_stage_by_configuration"] = rates
        if compared == 0:
            inconclusive.append("no chunks were compared")
        # evaluations = parses in all configurations; distinct counted once
        first = [r for r in results if r.summary and r.job.cfg == "default" and r.job.prof == "rel"]
        if first:
            cov["distinct_nontrivial"] = sum(r.summary.get("distinct", 0) for r in first)

    return generic(prop, tier, jobs, rule, ["differential: no arithmetic oracle; agreement of all configurations on a wrong value would not be seen here (C01/C02 judge values)"] + ASSUME_ORACLE[1:], post=post)


def p_c09(prop, tier):
    if tier == "quick":
        jobs = parse_jobs(prop, tier, CFG5, ["default", "compact"], 4, 2, 12)
    else:
        jobs = parse_jobs(prop, tier, CFG8, CFG5, 8, 4, 75)
    rule = ("clusters of nearby valid inputs (variants around one rounding boundary; three adjacent floats and the midpoints between them; runs of consecutive significands w, w+1, ... around 2^53 / 2^24 / 10^19 / powers of ten "
            "at fixed exponent with random layouts; the same digits over consecutive exponents across every early-out; continued-fraction hard cases and neighbours; depth perturbations P4999..9 < P5 < P5000..01 up to 20000 digits out; range ends) "
            "are sorted by their exact decimal value (digit-string comparison) and parsed in that order; monitor: results non-decreasing, equal values give equal bits. "
            "Non-trivial/distinct = distinct adjacent pair (hash of both inputs); pairs decided by different tiers are counted from the hooks.")
    return generic(prop, tier, jobs, rule, ["order of the inputs is decided by the harness' exact decimal comparison; no arithmetic oracle is needed for the verdict"] + ASSUME_ORACLE[1:])


def p_c10(prop, tier):
    if tier == "quick":
        jobs = parse_jobs(prop, tier, CFG5, ["default", "compact"], 4, 2, 12)
    else:
        jobs = parse_jobs(prop, tier, CFG8, CFG5, 8, 4, 75)
    rule = ("for a base digit sequence (boundary variants, 19-digit ties, seams, hard cases, range ends, random; 1..3000 significant digits) every spelling of the same real number is parsed: "
            "each split position between integer and fraction (all positions up to 48 digits, else a sample incl. the 19/20 seams), digits moved into the exponent (integer padded with 1..800 zeros), "
            "empty integer with 0..5000 leading fraction zeros, 0..40 appended fraction zeros, and combinations; monitor: all spellings return the bits of the first; the first is anchored to the exact oracle on 1/8 of the bases. "
            "Non-trivial/distinct = distinct spelling (input hash).")
    return generic(prop, tier, jobs, rule, ["metamorphic: a value that is wrong in every spelling alike is only seen by the sampled oracle anchor (and by C01/C02)"] + ASSUME_ORACLE)


def p_c11(prop, tier):
    if tier == "quick":
        jobs = [Job("eng_moderate", c, pr, shards=n, budget=B(14), args=["--small-w", "384"]) for (c, pr, n) in [("default", "rel", 5), ("compact", "rel", 5), ("default", "chk", 2), ("compact", "chk", 2), ("nostd+compact", "rel", 2)]]
    else:
        jobs = [Job("eng_moderate", c, pr, shards=n, budget=B(150), args=["--small-w", "16384" if pr == "rel" and c in ("default", "compact") else "1024"]) for (c, pr, n) in [("default", "rel", 8), ("compact", "rel", 8), ("default", "chk", 4), ("compact", "chk", 4), ("nostd+compact", "rel", 4), ("alloc", "rel", 2), ("compact+alloc", "rel", 2)]]
    rule = ("(w, q, truncated) triples fed directly to moderate_path / lemire / bellerophon for f32 and f64: the whole continued-fraction corpus (w*10^q within ~2^-100..2^-120 of a midpoint or a float) with w-1, w, w+1, exact and truncated; "
            "every significand below 384 (quick) / 16384 (thorough) x every decimal exponent in [-350,315] (f64) / [-70,45] (f32) x exact/truncated (bounded-exhaustive); 15..20-digit prefixes of exact midpoint/float expansions as (w,q) and (w+1,q); 19-digit exact ties inside and just outside the tie windows (also unnormalised w*10^k); structured w (0, 1, 2^k+-2, 10^k+-2, u64::MAX) and q at and beyond every table end and early-out up to i32::MIN/MAX; uniform random. "
            "A definite answer is judged by the exact oracle against w*10^q and, when truncated, against the whole interval [w, w+1)*10^q; declining is never a violation. Non-trivial = definite answer; distinct = distinct (w, q, truncated, format).")
    return generic(prop, tier, jobs, rule, ["truncated is only combined with 1 <= w <= u64::MAX-1 (what the digit accumulator can produce; w+1 would overflow otherwise)"] + ASSUME_ORACLE)


def lean_compare(results, violations, inconclusive, cov, prop, sd):
    """Miri 'lean' shards print a hash of everything the crate returned; compare with the native twin."""
    nat = {}
    for r in results:
        if r.summary and r.job.instr == "native" and r.summary.get("extra", {}).get("lean"):
            nat[(r.job.cfg, r.job.prof, r.idx, tuple(r.job.args))] = r.summary["extra"].get("result_hash")
    n = 0
    for r in results:
        if r.summary and r.job.instr.startswith("miri") and r.summary.get("extra", {}).get("lean"):
            k = (r.job.cfg, r.job.prof, r.idx, tuple(r.job.args))
            if k not in nat:
                inconclusive.append("no native twin for %s shard %d" % (r.job.name, r.idx))
                continue
            n += 1
            if nat[k] != r.summary["extra"].get("result_hash"):
                body = {"property": prop, "engine": r.job.engine, "config": r.job.cfg, "profile": r.job.prof, "instr": r.job.instr, "what": "results under the interpreter differ from the native run of the same operations",
                        "hashes": {"native": nat[k], r.job.instr: r.summary["extra"].get("result_hash")}, "command": r.cmd}
                path = write_replay(prop, sd, 800000 + n, body)
                violations.append({"sig": "miri-native-mismatch:%s:%s" % (r.job.cfg, r.job.prof), "what": body["what"], "replay": path})
    cov["interpreter_shards_compared_with_native"] = n
    cov["interpreter_executions"] = sum(r.summary["evals"] for r in results if r.summary and r.job.instr.startswith("miri"))


def mem_jobs(engine, cells, shards, count, extra_args=None):
    """Pairs of (interpreter, native twin) lean jobs with a fixed operation count."""
    jobs = []
    for (cfg, prof, instr) in cells:
        a = ["--lean", "1", "--max-evals", str(count)] + list(extra_args or [])
        j = Job(engine, cfg, prof, instr=instr, shards=shards, budget=3000, args=a, timeout=1500)
        jobs.append(j)
        t = Job(engine, cfg, prof, shards=shards, budget=3000, args=a, name=j.name + "-twin")
        jobs.append(t)
    return jobs


def p_c12(prop, tier):
    if tier == "quick":
        jobs = [Job("eng_bigint", c, pr, shards=n, budget=B(12)) for (c, pr, n) in [("default", "rel", 3), ("alloc", "rel", 3), ("compact", "rel", 2), ("default", "chk", 2), ("alloc", "chk", 2)]]
        jobs += mem_jobs("eng_bigint", [("default", "rel", "miri-sb"), ("alloc", "rel", "miri-sb"), ("default", "chk", "miri-tb")], 2, int(120 * common.budget_scale()))
    else:
        jobs = [Job("eng_bigint", c, pr, shards=n, budget=B(120)) for (c, pr, n) in [("default", "rel", 4), ("alloc", "rel", 4), ("compact", "rel", 2), ("compact+alloc", "rel", 2), ("nostd+compact", "rel", 2), ("default", "chk", 4), ("alloc", "chk", 4), ("compact", "chk", 2)]]
        cells = [(c, p, i) for c in ("default", "alloc", "compact") for p in ("rel", "chk") for i in ("miri-sb", "miri-tb")]
        jobs += mem_jobs("eng_bigint", cells, 3, int(1500 * common.budget_scale()))
    rule = ("single big-integer operations with explicit operands (1..62 limbs; limb patterns all-ones carry chains, sparse, zero limbs inside, top limb 1/MAX; result sizes aimed at 60..64 limbs): "
            "small_add(_from), small_mul, large_add(_from), long_mul / large_mul / MulAssign in both operand orders, pow(2|5|10, e) with every e in 0..=1720 once plus exponents around 27/135 multiples, shl / shl_bits / shl_limbs for every bit count, "
            "compare/Ord/Eq, normalize/is_normalized, bit_length, leading_zeros, hi64 with the sticky bit at every depth, from_u64, scalar_add/mul; each result compared with the harness' reference naturals (u32 limbs, schoolbook), "
            "including the success/failure outcome against the capacity (stack: 62 limbs; heap: unbounded, shl_limbs bounded by Vec::capacity()). "
            "A lean slice of the same generator runs under Miri (Stacked and Tree Borrows) and must return what the native run returns. Non-trivial/distinct = distinct operation+operands.")

    def post(m, results, cov, violations, inconclusive, workdir, sd):
        lean_compare(results, violations, inconclusive, cov, prop, sd)

    return generic(prop, tier, jobs, rule, ["reference big integers (harness/src/bigref.rs) are correct; they are also used by the value oracle that is cross-checked against Python integers", "operands are within what the operations assert or their callers establish (non-zero multi-limb factors, normalized input for hi64/compare, start <= len)"] + ASSUME_ORACLE[1:], post=post)


def p_c13(prop, tier):
    if tier == "quick":
        jobs = [Job("eng_bigint", c, pr, shards=n, budget=B(12), args=["--sweep-depth", "4"]) for (c, pr, n) in [("default", "rel", 3), ("alloc", "rel", 3), ("default", "chk", 2), ("alloc", "chk", 2)]]
        mcells = [("default", "rel", "miri-sb"), ("default", "chk", "miri-tb"), ("alloc", "rel", "miri-sb")]
        jobs += [Job("eng_bigint", c, p, instr=i, shards=2, budget=3000, args=["--max-evals", str(int(4 * common.budget_scale())), "--history-ops", "150"], timeout=1500) for (c, p, i) in mcells]
    else:
        jobs = [Job("eng_bigint", c, pr, shards=n, budget=B(120), args=["--sweep-depth", "5"]) for (c, pr, n) in [("default", "rel", 4), ("alloc", "rel", 4), ("compact", "rel", 2), ("nostd+compact", "rel", 2), ("default", "chk", 4), ("alloc", "chk", 4)]]
        mcells = [(c, p, i) for c in ("default", "alloc") for p in ("rel", "chk") for i in ("miri-sb", "miri-tb")]
        jobs += [Job("eng_bigint", c, p, instr=i, shards=4, budget=3000, args=["--max-evals", str(int(40 * common.budget_scale())), "--history-ops", "200"], timeout=3000) for (c, p, i) in mcells]
        # valgrind memcheck on the optimised binary: use of never-written slots shows as "uninitialised value" there
        jobs += [Job("eng_bigint", c, "rel", instr="valgrind", shards=3, budget=B(60), timeout=3000) for c in ("default", "alloc")]
    rule = ("operation histories (20..400 operations each, phases that fill to the capacity, hover there and drain) over the safe API of the vector: new / from_u64 / try_from, try_push, pop, try_extend (to exactly 62 and to 63), "
            "try_resize (grow / shrink / same / beyond capacity), normalize, add_small, mul_small (with carries at capacity), clone, ==/cmp against other vectors, hi64, indexed writes; "
            "plus a small-scope exhaustive part: every sequence of 4 (quick) / 5 (thorough) operations over a 13-letter alphabet of capacity-relevant operations from 8 start states at and next to the capacity; after every operation "
            "length, contents (through Deref), is_empty, capacity and return value are compared with an executable model (a plain sequence with capacity 62 for the stack vector, unbounded for the heap vector); "
            "a failed push/extend/resize must change nothing. The same engine with the same model runs under Miri (Stacked + Tree Borrows: reads of never-written slots, out-of-range writes are reported there) and, in thorough, under valgrind memcheck. "
            "Non-trivial/distinct = distinct history (hash of the operation trace).")

    def post(m, results, cov, violations, inconclusive, workdir, sd):
        cov["interpreter_histories"] = sum(r.summary["evals"] for r in results if r.summary and r.job.instr.startswith("miri"))
        cov["interpreter_operations"] = sum(r.summary.get("counters", {}).get("history.operations", 0) for r in results if r.summary and r.job.instr.startswith("miri"))

    return generic(prop, tier, jobs, rule, ["numeric ordering/equality is judged on normalized vectors (what every caller passes); on the heap vector in debug-assertion builds histories stay within 62 limbs (HeapVec::set_len debug-asserts that bound)"] + ASSUME_ORACLE[1:], post=post)


def generator_scripts_opinion():
    """Third opinion for C14: run the repository's own etc/*.py generators and compare their output with the table
    sources, number by number. A disagreement is inconclusive (the definitions in pyoracle/consts.py are the judge)."""
    out = {"disagreements": []}
    try:
        src = open(os.path.join(common.REPO, "src/table_lemire.rs")).read()
        gen = subprocess.run([PY, os.path.join(common.REPO, "etc/lemire_table.py")], stdout=subprocess.PIPE, stderr=subprocess.PIPE, text=True, timeout=120).stdout
        pat = re.compile(r"\(0x([0-9a-f]+), 0x([0-9a-f]+)\)")
        a = pat.findall(src)
        b = pat.findall(gen)
        out["lemire_table_entries_compared"] = min(len(a), len(b))
        if len(a) != len(b):
            out["disagreements"].append("lemire: %d entries in the source, %d from etc/lemire_table.py" % (len(a), len(b)))
        for i, (x, y) in enumerate(zip(a, b)):
            if (int(x[0], 16), int(x[1], 16)) != (int(y[0], 16), int(y[1], 16)):
                out["disagreements"].append("lemire entry %d (5^%d): source %s, script %s" % (i, i - 342, x, y))
                break
        src = open(os.path.join(common.REPO, "src/table_bellerophon.rs")).read()
        gen = subprocess.run([PY, os.path.join(common.REPO, "etc/bellerophon_table.py")], stdout=subprocess.PIPE, stderr=subprocess.PIPE, text=True, timeout=120).stdout

        def mant(txt, name):
            m = re.search(r"(?:const|static) " + name + r"[^=]*=\s*\[(.*?)\];", txt, re.S)
            return [int(x) for x in re.findall(r"^\s*(\d+),", m.group(1), re.M)] if m else []
        for name in ("SMALL_MANTISSA", "LARGE_MANTISSA"):
            a, b = mant(src, "BASE10_" + name), mant(gen, "BASE10_" + name)
            out["bellerophon_%s_compared" % name.lower()] = min(len(a), len(b))
            if a != b:
                out["disagreements"].append("bellerophon %s: source and etc/bellerophon_table.py differ (%d vs %d entries)" % (name, len(a), len(b)))
    except Exception as e:  # the third opinion is optional
        out["error"] = str(e)
    return out


def p_c14(prop, tier):
    t0 = time.time()
    sd = seed()
    workdir = fresh_workdir(prop)
    cells = [(c, "rel") for c in CFG8] + [(c, "chk") for c in (CFG8 if tier == "thorough" else ["default", "compact", "nostd+compact"])]
    violations, inconclusive, samples = [], [], []
    total = 0
    per = {}
    for (cfg, prof) in cells:
        try:
            bindir = build(cfg, prof, ["eng_consts"])
        except BuildError as e:
            print(str(e))
            inconclusive.append("eng_consts does not build for %s/%s" % (cfg, prof))
            continue
        dump = os.path.join(workdir, "dump-%s-%s.txt" % (cfg.replace("+", "_"), prof))
        p = subprocess.run([os.path.join(bindir, "eng_consts")], stdout=open(dump, "w"), stderr=subprocess.PIPE, env=base_env(), timeout=120)
        if p.returncode != 0:
            # a panic while computing a power (e.g. overflow check) is itself a finding about that constant
            body = {"property": prop, "engine": "eng_consts", "config": cfg, "profile": prof, "what": "constant dump ended abnormally", "stderr": tail(p.stderr.decode("utf-8", "replace"), 10)}
            path = write_replay(prop, sd, len(violations), body)
            violations.append({"sig": "dump-crash:%s:%s" % (cfg, prof), "what": body["what"] + ": " + body["stderr"][-200:], "replay": path})
            continue
        q = subprocess.run([PY, os.path.join(VERIF, "pyoracle", "consts.py"), dump], stdout=subprocess.PIPE, stderr=subprocess.PIPE, text=True, timeout=300)
        if q.returncode != 0:
            inconclusive.append("consts.py failed on %s/%s: %s" % (cfg, prof, tail(q.stderr, 3)))
            continue
        res = json.loads(q.stdout)
        per["%s/%s" % (cfg, prof)] = res["checked"]
        total += res["total"]
        for mm in res["mismatches"]:
            body = {"property": prop, "engine": "eng_consts", "config": cfg, "profile": prof, "what": "constant differs from its definition", "constant": mm}
            path = write_replay(prop, sd, len(violations), body)
            violations.append({"sig": "const:%s:%s" % (cfg, mm["constant"]), "what": "%s = %s, definition %s (%s/%s)" % (mm["constant"], mm["observed"][:80], mm["definition"][:80], cfg, prof), "replay": path})
        for ms in res["missing"]:
            inconclusive.append("%s/%s: %s" % (cfg, prof, ms))
        if len(samples) < 8:
            lines = open(dump).read().splitlines()
            samples += [lines[i] for i in (5, 60, 200, 700) if i < len(lines)]
    third = generator_scripts_opinion()
    for msg in third.get("disagreements", []):
        inconclusive.append("the repository's own generator script disagrees with the table source: %s" % msg)
    cov = {"evaluations": total, "distinct_nontrivial": total, "exhaustive": not inconclusive, "generator_scripts_third_opinion": {k: v for k, v in third.items() if k != "disagreements"},
           "rule": "complete enumeration: every table entry / computed power that the running program of each configuration sees (651 x 128-bit Eisel-Lemire significands and its exponent map for every q, 28+20 small integer powers through the crate's own accessor, 23+11 float powers as returned by pow_fast_path - table, std powf or the bundled libm -, the 5^135 big-integer constant, 10+66+10 Bellerophon entries with their binary exponents) is compared with its definition computed from Python integers. Every entry is distinct and non-trivial.",
           "samples": samples[:12], "entries_checked_per_configuration": per}
    write_evidence(prop, tier, sd, "exploration", cov, ["float powers are decided for this platform's libm (glibc) and the bundled libm as compiled here", "definitions are my reading of the property text and of the generators in etc/ (re-implemented, not imported)"], time.time() - t0, len(violations))
    print("%s %s: %d constants in %d cells, %.1fs" % (prop, tier, total, len(per), time.time() - t0))
    if total == 0:
        inconclusive.append("nothing was compared")
    return conclude(prop, violations, inconclusive)


def p_c17(prop, tier):
    if tier == "quick":
        jobs = [Job("eng_float", "default", "rel", shards=16, budget=B(14)),
                Job("eng_float", "compact", "rel", shards=4, budget=B(8), args=["--stride32", "16"]),
                Job("eng_float", "default", "chk", shards=4, budget=B(8), args=["--stride32", "16"]),
                Job("eng_float", "nostd+compact", "rel", shards=2, budget=B(8), args=["--stride32", "64"]),
                Job("eng_float", "default", "relnative", shards=8, budget=B(8), args=["--stride32", "4"])]
    else:
        jobs = [Job("eng_float", "default", "rel", shards=16, budget=B(180)),
                Job("eng_float", "default", "relnative", shards=16, budget=B(120)),
                Job("eng_float", "compact", "rel", shards=8, budget=B(60)),
                Job("eng_float", "default", "chk", shards=8, budget=B(60)),
                Job("eng_float", "alloc", "rel", shards=4, budget=B(30), args=["--stride32", "4"]),
                Job("eng_float", "nostd+compact", "rel", shards=8, budget=B(60))]
    rule = ("every f32 bit pattern (all 2^32, default configuration; strided in the others in quick) and f64 patterns (every biased exponent x 72 structured/random fractions x both signs, then uniform random 64-bit patterns): "
            "is_denormal / exponent() / mantissa() compared with the fields extracted by shifts and masks written from IEEE-754; mantissa x 2^exponent recomputed with exact hardware scalings and compared with |x| for finite x; "
            "to_bits/from_bits lossless; slow::b / bh; extended_to_float(biased exponent, fraction) gives exactly those fields; from_u64. "
            "distinct_nontrivial counts the enumerated (hence distinct) patterns only; random f64 patterns are in evaluations but not in the distinct count.")

    def post(m, results, cov, violations, inconclusive, workdir, sd):
        ex = [(jn, e) for (jn, i, e) in m.extras]
        cov["distinct_nontrivial"] = sum(int(e.get("distinct_by_enumeration", 0)) for (jn, e) in ex)
        d = [e for (jn, e) in ex if jn == "eng_float-default-rel"]
        cov["f32_exhaustive_in_default_configuration"] = bool(d) and all(e.get("f32_all_patterns_in_shard_range") for e in d)
        cov["exhaustive_scope"] = "f32: all 2^32 bit patterns (when the flag above is true); f64 is sampled"

    def exh(m, cov):
        return cov.get("f32_exhaustive_in_default_configuration", False)

    return generic(prop, tier, jobs, rule, ["x86_64 SSE2 float semantics (from_bits/to_bits preserve NaN payloads)"] + ASSUME_ORACLE[1:], post=post, exhaustive=exh)


def p_c18(prop, tier):
    if tier == "quick":
        jobs = [Job("eng_float", c, pr, shards=n, budget=B(12)) for (c, pr, n) in [("default", "rel", 6), ("compact", "rel", 4), ("default", "chk", 3), ("compact", "chk", 3), ("default", "relnative", 2)]]
    else:
        jobs = [Job("eng_float", c, pr, shards=n, budget=B(120)) for (c, pr, n) in [("default", "rel", 8), ("compact", "rel", 8), ("default", "chk", 4), ("compact", "chk", 4), ("nostd+compact", "rel", 4), ("alloc", "rel", 2)]]
    rule = ("(significand in [2^63,2^64), biased exponent) pairs: every exponent in [-63,2100] (f64) / [-63,320] (f32) x 24 significands built from pattern classes (kept bits all-zero / all-ones / odd / random; guard region 0, 1, half-1, half, half+1, all ones, random) "
            "x 3 variants (nearest-even as Bellerophon uses it, nearest with sticky 'truncated' as positive_digit_comp uses it, truncating round_down), plus for every subnormal shift 1..64 the exact halfway pattern +-1, plus uniform random pairs; "
            "round::<F> + extended_to_float compared with an independent exact integer rounding (u128), which is itself cross-checked by the decimal oracle on 1/257 of the cases; lower_n_mask / lower_n_halfway / nth_bit for all widths 0..=64. "
            "The truncating variant is judged below 2^(emax+1) only (above, round() saturates to infinity by design). Non-trivial/distinct = distinct (significand, exponent, variant, format).")
    return generic(prop, tier, jobs, rule, ["exponent domain as the property states: subnormal shifts of at most 64 bits (exponent >= -63)"] + ASSUME_ORACLE[1:])


def p_c19(prop, tier):
    if tier == "quick":
        jobs = [Job("eng_front", c, pr, shards=n, budget=B(12)) for (c, pr, n) in [("default", "rel", 6), ("compact", "rel", 3), ("default", "chk", 3), ("alloc", "rel", 2)]]
    else:
        jobs = [Job("eng_front", c, pr, shards=n, budget=B(120)) for (c, pr, n) in [("default", "rel", 8), ("compact", "rel", 4), ("default", "chk", 4), ("compact", "chk", 2), ("alloc", "rel", 2), ("nostd+compact", "rel", 2)]]
    rule = ("byte strings through all seven shipped copies of the front-end (examples/simple.rs, fuzz/fuzz_targets/parse.rs, tests/integration_tests.rs and the four etc/correctness copies, taken from the working tree at build time) for f32 and f64: "
            "grammar-directed strings (every optional part present / absent / empty, signs, leading and trailing zeros, '.' or exponent marker without digits, exponents around and far beyond +-2^31, numeric payloads from the boundary / range-end / tie / seam generators, arbitrary suffix bytes), "
            "byte-level mutations of such strings, special literals nan / inf / infinity in random case (also truncated and extended), alphabet soup and pure random bytes, plus fixed probes; "
            "monitor: (value bits incl. sign, remaining suffix) equal to a reference scanner written from the grammar + the exact rounding oracle, and no panic. Non-trivial/distinct = distinct input string.")
    return generic(prop, tier, jobs, rule, ["copies that accept nan/inf/infinity are recognised by the presence of their case-insensitive matcher; NaN is compared as 'is a NaN' (payload/sign not judged)"] + ASSUME_ORACLE)


def unsafe_coverage(prop, sd, workdir, cfgs, evals):
    """Evidence only (no verdict): which lines of the crate that contain unsafe operations were executed by the C08 driver.
    Built with -Cinstrument-coverage, measured with the toolchain's llvm-profdata / llvm-cov."""
    sysroot = subprocess.run(["rustc", "+nightly", "--print", "sysroot"], stdout=subprocess.PIPE, text=True).stdout.strip()
    tools = os.path.join(sysroot, "lib/rustlib/x86_64-unknown-linux-gnu/bin")
    if not os.path.exists(os.path.join(tools, "llvm-cov")):
        return {"error": "llvm-cov not found in the nightly sysroot"}
    hits = {}       # (file, line) -> max count
    seen = set()    # (file, line) instrumented somewhere
    for cfg in cfgs:
        try:
            bindir = build(cfg, "rel", ["eng_mem"], "cov")
        except BuildError as e:
            return {"error": "coverage build failed for %s" % cfg}
        raw = os.path.join(workdir, "cov-%s-%%p.profraw" % cfg.replace("+", "_"))
        env = base_env()
        env["LLVM_PROFILE_FILE"] = raw
        exe = os.path.join(bindir, "eng_mem")
        subprocess.run([exe, "--prop", prop, "--seed", str(sd), "--max-evals", str(evals), "--budget-s", "60", "--replay-dir", REPLAYS], env=env, stdout=subprocess.PIPE, stderr=subprocess.PIPE, timeout=600)
        raws = glob.glob(os.path.join(workdir, "cov-%s-*.profraw" % cfg.replace("+", "_")))
        if not raws:
            continue
        prof = os.path.join(workdir, "cov-%s.profdata" % cfg.replace("+", "_"))
        subprocess.run([os.path.join(tools, "llvm-profdata"), "merge", "-sparse", "-o", prof] + raws, stdout=subprocess.PIPE, stderr=subprocess.PIPE)
        q = subprocess.run([os.path.join(tools, "llvm-cov"), "export", "-format=lcov", "-instr-profile", prof, exe], stdout=subprocess.PIPE, stderr=subprocess.PIPE, text=True)
        cur = None
        for line in q.stdout.splitlines():
            if line.startswith("SF:"):
                f = line[3:]
                cur = f[len(common.REPO) + 1:] if f.startswith(common.REPO + "/src/") else None
            elif line.startswith("DA:") and cur:
                ln, cnt = line[3:].split(",")[:2]
                k = (cur, int(ln))
                seen.add(k)
                hits[k] = max(hits.get(k, 0), int(cnt))
    # lines with unsafe operations in the crate's sources
    sites = []
    pat = re.compile(r"unsafe\s*\{|get_unchecked|ptr::(read|write|copy)|set_len\(|from_raw_parts|_unchecked\(")
    for f in sorted(glob.glob(os.path.join(common.REPO, "src", "*.rs"))):
        rel = f[len(common.REPO) + 1:]
        if rel.endswith("verif.rs"):
            continue
        for i, line in enumerate(open(f), 1):
            t = line.strip()
            if t.startswith("//") or "unsafe fn" in t or "verif" in t:
                continue
            if pat.search(t):
                sites.append((rel, i, t[:90]))
    executed = ["%s:%d  %s" % (f, l, t) for (f, l, t) in sites if hits.get((f, l), 0) > 0]
    not_exec = ["%s:%d  %s" % (f, l, t) for (f, l, t) in sites if (f, l) in seen and hits.get((f, l), 0) == 0]
    not_comp = ["%s:%d  %s" % (f, l, t) for (f, l, t) in sites if (f, l) not in seen]
    return {"configurations": cfgs, "driver_executions_per_configuration": evals, "unsafe_sites_total": len(sites), "executed": executed, "instrumented_but_never_executed": not_exec,
            "not_instrumented_in_these_configurations": not_comp}


FUZZER = os.path.join(common.VERIF, "fuzzer")


def fuzz_build(cfg, debug_assertions=False):
    """Build the libFuzzer + AddressSanitizer target against the crate's current working tree. Returns (target_dir, error)."""
    ct = os.path.join(FUZZER, "fuzz", "Cargo.toml")
    txt = open(ct).read()
    want = re.sub(r'path = "[^"]*"\n(default-features = false)', 'path = "%s"\n\\1' % common.REPO, txt)
    if want != txt:
        open(ct, "w").write(want)
    tdir = os.path.join(common.BUILD, "fuzz-%s%s" % (cfg.replace("+", "_"), "-dbg" if debug_assertions else ""))
    cmd = ["cargo", "+nightly", "fuzz", "build", "bytes", "--target-dir", tdir, "--no-default-features", "--features", common.FEATURES[cfg]]
    if not debug_assertions:
        cmd.append("-O")  # cargo-fuzz's default keeps debug assertions (and the standard library's unsafe-precondition checks) on
    env = common.base_env()
    p = subprocess.run(cmd, cwd=FUZZER, env=env, stdout=subprocess.PIPE, stderr=subprocess.STDOUT, text=True)
    if p.returncode != 0:
        return tdir, tail(p.stdout, 25)
    return tdir, None


def fuzz_session(prop, sd, workdir, seconds, cfg, violations, inconclusive, debug_assertions=False):
    """Coverage-guided arbitrary bytes (libFuzzer, value profile, 16 forked workers) into parse_float under
    AddressSanitizer; clean panics are caught inside the target. A sanitizer report / deadly signal = violation with the
    crashing input as replay; out-of-memory or timeout of a worker = inconclusive. Returns an evidence dict."""
    tdir, err = fuzz_build(cfg, debug_assertions)
    tag = cfg.replace("+", "_") + ("-dbg" if debug_assertions else "")
    ev = {"configuration": cfg, "debug_assertions": debug_assertions, "seconds": seconds}
    if err:
        inconclusive.append("fuzz target does not build against the current tree (%s): %s" % (cfg, err.replace("\n", " | ")[-600:]))
        return ev
    corpus = os.path.join(workdir, "fuzz-corpus-" + tag)
    art = os.path.join(workdir, "fuzz-artifacts-" + tag) + "/"
    shutil.rmtree(corpus, ignore_errors=True)
    shutil.copytree(os.path.join(FUZZER, "seeds"), corpus)
    os.makedirs(art, exist_ok=True)
    cmd = ["cargo", "+nightly", "fuzz", "run", "bytes", "--target-dir", tdir, "--no-default-features", "--features", common.FEATURES[cfg]] + ([] if debug_assertions else ["-O"]) + [
        corpus, "--", "-artifact_prefix=" + art, "-max_total_time=%d" % seconds, "-timeout=10", "-fork=%d" % common.NCPU, "-max_len=1600", "-use_value_profile=1", "-seed=%d" % (sd + 1), "-rss_limit_mb=3000"]
    env = common.base_env()
    env["ASAN_OPTIONS"] = "detect_leaks=0:abort_on_error=1:halt_on_error=1"
    try:
        p = subprocess.run(cmd, cwd=FUZZER, env=env, stdout=subprocess.PIPE, stderr=subprocess.STDOUT, text=True, errors="replace", timeout=seconds + 300)
        out = p.stdout
    except subprocess.TimeoutExpired as e:
        inconclusive.append("fuzz session (%s) hit its wall-clock watchdog" % cfg)
        out = (e.stdout or b"").decode("utf-8", "replace") if isinstance(e.stdout, bytes) else (e.stdout or "")
    last = None
    for m in re.finditer(r"#(\d+): cov: (\d+) ft: (\d+) corp: (\d+) exec/s:? (\d+) oom/timeout/crash: (\d+)/(\d+)/(\d+)", out):
        last = m
    if last:
        ev.update({"executions": int(last.group(1)), "coverage_edges": int(last.group(2)), "features": int(last.group(3)), "corpus_units": int(last.group(4)),
                   "worker_oom": int(last.group(6)), "worker_timeouts": int(last.group(7)), "worker_crashes": int(last.group(8))})
    else:
        inconclusive.append("fuzz session (%s) printed no statistics: %s" % (cfg, tail(out, 4).replace("\n", " | ")))
    arts = sorted(glob.glob(art + "*"))
    crashes = [a for a in arts if os.path.basename(a).startswith("crash-")]
    others = [a for a in arts if not os.path.basename(a).startswith("crash-")]
    if others or (last and (int(last.group(6)) or int(last.group(7)))):
        inconclusive.append("fuzz session (%s): %d worker(s) ran out of memory or time (%s)" % (cfg, len(others), ", ".join(os.path.basename(a) for a in others[:3])))
    seen = set()
    for a in crashes[:8]:
        # reproduce the unit alone to get its own report
        r = subprocess.run(cmd[:cmd.index(corpus)] + [a, "--", "-timeout=10", "-rss_limit_mb=3000"], cwd=FUZZER, env=env, stdout=subprocess.PIPE, stderr=subprocess.STDOUT, text=True, errors="replace", timeout=300)
        rep = r.stdout
        m = re.search(r"ERROR: AddressSanitizer: ([^\n]*)", rep)
        nu = re.search(r"NON-UNWINDING PANIC: ([^\n]*\n?[^\n]*)", rep)
        kind = ("AddressSanitizer: " + m.group(1).strip()[:100]) if m else (("abort: " + " ".join(nu.group(1).split())[:160]) if nu else ("deadly signal" if "deadly signal" in rep else None))
        if r.returncode == 0 or kind is None:
            inconclusive.append("fuzz session (%s): unit %s ended a worker but does not reproduce alone (rc=%s)" % (cfg, os.path.basename(a), r.returncode))
            continue
        frame = common.first_repo_frame(rep[m.start():] if m else (nu.group(0) if nu and common.first_repo_frame(nu.group(0)) else rep))
        sig = "fuzz:%s:%s" % (kind.split(" on ")[0], frame)
        if sig in seen:
            continue
        seen.add(sig)
        os.makedirs(common.REPLAYS, exist_ok=True)
        keep = os.path.join(common.REPLAYS, "%s-fuzz-%s-%s" % (prop, tag, os.path.basename(a)))
        shutil.copyfile(a, keep)
        body = {"property": prop, "engine": "fuzz", "config": cfg, "debug_assertions": debug_assertions, "what": kind, "first_frame_in_crate": frame, "unit_file": keep,
                "unit_hex": open(a, "rb").read()[:4096].hex(), "layout": "[selector][exponent i32 LE][split u16 LE][integer bytes ++ fraction bytes] (fuzzer/fuzz/fuzz_targets/bytes.rs)", "report": tail(rep[m.start():m.start() + 5000] if m else rep, 50)}
        path = write_replay(prop, sd, 800000 + len(violations), body)
        violations.append({"sig": sig, "what": "%s at %s (libFuzzer+ASan, %s%s)" % (kind, frame, cfg, ", debug assertions" if debug_assertions else ""), "replay": path, "job": "fuzz-" + tag})
    ev["crashing_units"] = len(crashes)
    return ev


def p_c08(prop, tier):
    sc = common.budget_scale()
    if tier == "quick":
        cells = [("default", "rel", "miri-sb", 4), ("default", "chk", "miri-sb", 2), ("alloc", "rel", "miri-sb", 2), ("nostd+compact", "rel", "miri-sb", 2), ("default", "rel", "miri-tb", 2), ("compact", "chk", "miri-tb", 2),
                 ("default", "rel", "miri-sb-i686", 2)]  # 32-bit target: the 32-bit-limb big-integer code
        count = int(150 * sc)
        asan = [("default", "rel", 2), ("alloc", "rel", 1)]
        asan_budget = 12
        vg = []
    else:
        cells = [(c, p, i, 3) for c in ("default", "alloc", "compact", "nostd+compact", "compact+alloc") for p in ("rel", "chk") for i in ("miri-sb", "miri-tb")]
        cells += [(c, p, "miri-sb-i686", 3) for c in ("default", "alloc") for p in ("rel", "chk")]
        count = int(3000 * sc)
        asan = [("default", "rel", 4), ("alloc", "rel", 3), ("compact", "rel", 2), ("nostd+compact", "rel", 2), ("default", "chk", 2)]
        asan_budget = 120
        vg = [("default", "rel", 3), ("alloc", "rel", 2), ("nostd+compact", "rel", 2)]
    jobs = []
    for (c, p, i, n) in cells:
        a = ["--max-evals", str(count), "--limb-max-digits", "180"]
        j = Job("eng_mem", c, p, instr=i, shards=n, budget=30000, args=a, timeout=1800 if tier == "quick" else 7200)
        jobs.append(j)
        if not any(t.name == "eng_mem-%s-%s-twin" % (c.replace("+", "_"), p) and t.shards == n for t in jobs):
            jobs.append(Job("eng_mem", c, p, shards=n, budget=30000, args=a, name="eng_mem-%s-%s-twin" % (c.replace("+", "_"), p)))
    for (c, p, n) in asan:
        jobs.append(Job("eng_mem", c, p, instr="asan", shards=n, budget=B(asan_budget)))
    for (c, p, n) in vg:
        jobs.append(Job("eng_mem", c, p, instr="valgrind", shards=n, budget=B(150), timeout=3000))
    if os.environ.get("VERIF_C08_PARTS") == "fuzz":
        jobs = []  # self-test switch (tools/): only the coverage-guided session; the run then ends inconclusive unless it finds something
    rule = ("parse_float::<f32|f64> on arbitrary bytes: every byte value, lengths 0..900 around the 19/20, 114 and 769 cut-offs, all-0xFF, all-0x00, '/' and ':' (neighbours of the digits), bytes >= 0x3a (garbage 'digits' up to 207 without subtraction overflow), "
            "digits with sprinkled garbage, leading zeros, any exponent incl. i32::MIN/MAX; every third case is a valid input aimed at an unchecked-index site (fast-path exponents +-22/23/37/38 and +-10/11/17/18, disguised shifts 0..15, 19-digit chunks, "
            "769-digit subnormals with the largest 5^k, long left shifts, every pow() remainder). No oracle runs: the judges are Miri (Stacked Borrows and Tree Borrows; rel and chk profiles), AddressSanitizer and (thorough) valgrind memcheck; "
            "a clean panic is allowed and counted by class; results under Miri must equal the native run of the same seed. Non-trivial/distinct = distinct (integer bytes, fraction bytes, exponent).")

    def post(m, results, cov, violations, inconclusive, workdir, sd):
        # differential Miri vs native twin
        nat = {}
        for r in results:
            if r.summary and r.job.instr == "native":
                nat[(r.job.cfg, r.job.prof, r.idx, r.job.shards)] = r.summary["extra"].get("result_hash")
        n = 0
        per_tool = {}
        for r in results:
            if r.summary:
                t = per_tool.setdefault(r.job.instr, {"executions": 0, "shards": 0, "clean_panics": 0})
                t["executions"] += r.summary["evals"]
                t["shards"] += 1
                t["clean_panics"] += r.summary.get("counters", {}).get("panicked_cleanly", 0)
            if r.summary and r.job.instr == "miri-sb-i686":
                # a different platform: a differing VALUE there is not a memory-safety matter (C01 judges it); recorded only
                k = (r.job.cfg, r.job.prof, r.idx, r.job.shards)
                cov.setdefault("i686_shards_compared_with_native_x86_64", {"same": 0, "different": 0})["same" if nat.get(k) == r.summary["extra"].get("result_hash") else "different"] += 1
            elif r.summary and r.job.instr.startswith("miri"):
                k = (r.job.cfg, r.job.prof, r.idx, r.job.shards)
                if k in nat:
                    n += 1
                    if nat[k] != r.summary["extra"].get("result_hash"):
                        body = {"property": prop, "engine": "eng_mem", "config": r.job.cfg, "profile": r.job.prof, "instr": r.job.instr, "what": "results under the interpreter differ from the native run of the same inputs", "command": r.cmd}
                        path = write_replay(prop, sd, 700000 + n, body)
                        violations.append({"sig": "miri-native-mismatch:%s:%s" % (r.job.cfg, r.job.prof), "what": body["what"], "replay": path})
        cov["executions_per_tool"] = per_tool
        cov["interpreter_shards_compared_with_native"] = n
        if tier == "thorough":
            try:
                cov["unsafe_line_coverage_of_the_driver"] = unsafe_coverage(prop, sd, workdir, ["default", "alloc", "compact", "nostd+compact"], 300000)
            except Exception as e:  # evidence only: never affects the verdict
                cov["unsafe_line_coverage_of_the_driver"] = {"error": str(e)}
        # coverage-guided arbitrary bytes under AddressSanitizer (libFuzzer): finds the narrow byte / length / exponent
        # coincidences that a fixed generator does not aim at
        fz = []
        # (configuration, debug assertions + unsafe-precondition checks on?, seconds)
        plan = [("default", False, 15), ("default", True, 12)] if tier == "quick" else [("default", False, 300), ("default", True, 240), ("alloc", False, 150), ("alloc", True, 90), ("compact", False, 150), ("nostd+compact", False, 120)]
        for (c, dbg, secs) in plan:
            fz.append(fuzz_session(prop, sd, workdir, max(10, int(secs * common.budget_scale())), c, violations, inconclusive, dbg))
        cov["coverage_guided_fuzzing"] = fz
        if not any(f.get("executions", 0) > 0 for f in fz):
            inconclusive.append("no execution completed under libFuzzer+ASan")
        for tool in (["miri-sb", "miri-tb", "miri-sb-i686", "asan"] + (["valgrind"] if tier == "thorough" else [])):
            if per_tool.get(tool, {}).get("executions", 0) == 0:
                inconclusive.append("no execution completed under %s" % tool)

    return generic(prop, tier, jobs, rule, ["memory safety is decided for the paths these workloads reach, under the tools' models (Miri: Stacked/Tree Borrows on 10^3-10^5 executions; ASan/valgrind: 10^6+ executions, blind to intra-object overflow)",
                                          "a report whose stack has no frame in /repo/src is treated as a harness problem (inconclusive)"] + ASSUME_ORACLE[1:], post=post)


def p_c15(prop, tier):
    if tier == "quick":
        jobs = [Job("eng_pure", c, pr, shards=n, budget=B(12)) for (c, pr, n) in [("default", "rel", 4), ("compact", "rel", 3), ("nostd+compact", "rel", 3), ("default", "chk", 2), ("compact", "chk", 2), ("alloc", "rel", 2)]]
    else:
        jobs = [Job("eng_pure", c, pr, shards=n, budget=B(120)) for (c, pr, n) in [("default", "rel", 4), ("compact", "rel", 4), ("nostd+compact", "rel", 4), ("nostd", "rel", 4), ("default", "chk", 2), ("compact", "chk", 2), ("nostd+compact", "chk", 2), ("nostd", "chk", 2), ("alloc", "rel", 2), ("compact+alloc", "rel", 2)]]
    rule = ("valid inputs from the boundary / range-end / tie / seam / random generators (so that every internal path class is reached: fast, disguised fast, moderate, big-integer positive and negative exponent, large 5^135 steps, sticky digit, 10^4..10^6-digit inputs), "
            "delivered through four iterator shapes built outside the monitored window; monitor = counting #[global_allocator] (alloc, alloc_zeroed, realloc, dealloc) armed on the calling thread exactly from entry to return of parse_float; "
            "verdict in configurations without the alloc feature: zero allocator events. Sensitivity control: the same workload in alloc configurations must show allocator events on every big-integer call (else the monitor is broken -> inconclusive). "
            "Non-trivial = not decided by the plain fast path; distinct = distinct (input, shape).")

    def post(m, results, cov, violations, inconclusive, workdir, sd):
        ctl = {}
        for r in results:
            if r.summary and "alloc" in r.job.cfg:
                cs = r.summary.get("counters", {})
                ctl["slow_path_calls"] = ctl.get("slow_path_calls", 0) + cs.get("control.slow_path_calls", 0)
                ctl["with_allocator_events"] = ctl.get("with_allocator_events", 0) + cs.get("control.slow_path_calls_with_allocator_events", 0)
                ctl["allocator_events"] = ctl.get("allocator_events", 0) + cs.get("control.allocator_events", 0)
        cov["sensitivity_control_alloc_configurations"] = ctl
        cov["monitored_calls_without_alloc_feature"] = sum(r.summary["evals"] for r in results if r.summary and "alloc" not in r.job.cfg)
        cov["allocator_events_without_alloc_feature"] = len([v for v in violations if "heap-allocation" in v.get("what", "")])
        if ctl.get("slow_path_calls", 0) == 0 or ctl.get("with_allocator_events", 0) != ctl.get("slow_path_calls", 0):
            inconclusive.append("sensitivity control failed: the monitor did not see the heap back-end allocate on every big-integer call")

    return generic(prop, tier, jobs, rule, ["every Rust heap allocation goes through #[global_allocator]; raw mmap/brk calls would not be seen (the crate has no FFI)"] + ASSUME_ORACLE[1:], post=post)


def p_c16(prop, tier):
    sc = common.budget_scale()
    if tier == "quick":
        jobs = [Job("eng_pure", c, pr, shards=n, budget=B(12), args=["--threads", str(t)]) for (c, pr, n, t) in [("default", "rel", 3, 8), ("default", "rel", 1, 64), ("compact", "rel", 2, 16), ("alloc", "rel", 2, 8), ("default", "chk", 2, 4), ("nostd+compact", "rel", 1, 8)]]
        jobs[1].name += "-64threads"
        mcells = [("default", "rel", "miri-sb", 3), ("alloc", "rel", "miri-sb", 2), ("default", "chk", "miri-tb", 1)]
        mset = int(8 * sc)
        tsan = []
    else:
        jobs = [Job("eng_pure", c, pr, shards=n, budget=B(100), args=["--threads", str(t)]) for (c, pr, n, t) in [("default", "rel", 3, 8), ("default", "rel", 2, 64), ("compact", "rel", 2, 16), ("alloc", "rel", 2, 8), ("compact+alloc", "rel", 1, 8), ("default", "chk", 2, 4), ("alloc", "chk", 1, 4), ("nostd+compact", "rel", 2, 8)]]
        jobs[1].name += "-64threads"
        mcells = [(c, p, i, 4) for c in ("default", "alloc", "compact") for p in ("rel", "chk") for i in ("miri-sb", "miri-tb")]
        mset = int(40 * sc)
        tsan = [("default", "rel", 2), ("alloc", "rel", 2)]
    seedno = 0
    for (c, p, i, n) in mcells:
        for k in range(n):
            seedno += 1
            j = Job("eng_pure", c, p, instr=i, shards=1, budget=30000, args=["--lean", "1", "--threads", "3", "--set", str(mset), "--rounds", "1", "--miri-schedule", str(seedno)], timeout=3000,
                    name="eng_pure-%s-%s-%s-sched%d" % (c.replace("+", "_"), p, i, seedno))
            j.miriflags = "-Zmiri-seed=%d -Zmiri-preemption-rate=%s" % (seedno * 7919 + seed(), ["0.01", "0.05", "0.2"][seedno % 3])
            jobs.append(j)
    for (c, p, n) in tsan:
        jobs.append(Job("eng_pure", c, p, instr="tsan", shards=n, budget=B(60), args=["--threads", "8"]))
    rule = ("valid inputs (emphasis on big-integer paths) parsed (a) through 8 iterator shapes yielding the same bytes: slice, chain of pieces cut inside/outside the 19-digit window, filter over a buffer with separators, wrapped VecDeque, rev of reversed data, "
            "skip/take/step_by, a hand-written Clone iterator over non-contiguous chunks with size_hint (0, None); (b) from heap buffers at offsets 0..7, a stack buffer, static storage; (c) right after the stack was overwritten with 0x00 / 0xFF / 0xAA / PRNG bytes and after another (long) parse; "
            "(d) from 3..64 threads sharing one read-only input set, each walking it in a different order, compared with the sequential results; hook traces (which tier, digit counts, limbs) must match too. "
            "The same engine runs under Miri (data-race detector, uninitialised-read detection; one -Zmiri-seed / preemption rate per shard = one schedule) and, in thorough, under ThreadSanitizer. "
            "Non-trivial/distinct = distinct input, plus one entry per distinct observed thread interleaving signature.")

    def post(m, results, cov, violations, inconclusive, workdir, sd):
        cov["miri_schedules_explored"] = len([r for r in results if r.summary and r.job.instr.startswith("miri")])
        cov["miri_seeds"] = [getattr(r.job, "miriflags", "") for r in results if r.job.instr.startswith("miri")]
        cov["tsan_executions"] = sum(r.summary["evals"] for r in results if r.summary and r.job.instr == "tsan")
        cov["thread_counts"] = sorted(set(int(r.summary["extra"].get("threads", 0)) for r in results if r.summary))
        cov["distinct_interleaving_signatures_upper_bound"] = m.counters.get("concurrent.interleaving_signatures", 0)
        if cov["miri_schedules_explored"] == 0:
            inconclusive.append("no Miri schedule completed")

    return generic(prop, tier, jobs, rule, ["schedules are sampled (Miri seeds, native oversubscription, TSan), not enumerated; the code has no shared mutable state, so absence of a race report on these schedules is what is claimed"] + ASSUME_ORACLE[1:], post=post)


def hashlib_sig(s):
    import hashlib
    return hashlib.sha1(s.encode()).hexdigest()[:16]


PLANS = {
    "C01": p_oracle, "C02": p_oracle, "C06": p_oracle, "C07": p_oracle,
    "C03": p_c03, "C04": p_c04, "C05": p_c05, "C09": p_c09, "C10": p_c10, "C11": p_c11, "C12": p_c12, "C13": p_c13, "C14": p_c14, "C17": p_c17, "C18": p_c18, "C19": p_c19, "C08": p_c08, "C15": p_c15, "C16": p_c16,
}


def run_check(prop, tier):
    if prop not in PLANS:
        print("unknown property %s" % prop)
        return 2
    os.makedirs(WORK, exist_ok=True)
    os.makedirs(REPLAYS, exist_ok=True)
    return PLANS[prop](prop, tier)


# ---------------------------------------------------------------------------- replay

def replay(prop, path):
    body = json.load(open(path))
    eng = body.get("engine", "eng_parse")
    cfg = body.get("config", "default")
    prof = body.get("profile", "rel")
    workdir = os.path.join(WORK, "replay")
    os.makedirs(workdir, exist_ok=True)
    job = Job(eng, cfg, prof, instr=body.get("instr", "native"), shards=1, budget=60)
    try:
        job.bindir = build(cfg, prof, [eng], job.instr)
    except BuildError as e:
        print(str(e))
        print("INCONCLUSIVE: property=%s harness does not build" % prop)
        return 3
    if eng == "eng_consts":
        try:
            bindir = build(cfg, prof, ["eng_consts"])
        except BuildError as e:
            print(str(e))
            print("INCONCLUSIVE: property=%s harness does not build" % prop)
            return 3
        dump = os.path.join(workdir, "replay-dump.txt")
        p = subprocess.run([os.path.join(bindir, "eng_consts")], stdout=open(dump, "w"), stderr=subprocess.PIPE, env=base_env(), timeout=120)
        if p.returncode != 0:
            print("constant dump ended abnormally: %s" % tail(p.stderr.decode("utf-8", "replace"), 5))
            print("VIOLATION property=%s replay=%s" % (prop, path))
            return 1
        q = subprocess.run([PY, os.path.join(VERIF, "pyoracle", "consts.py"), dump], stdout=subprocess.PIPE, stderr=subprocess.PIPE, text=True, timeout=300)
        res = json.loads(q.stdout)
        want = (body.get("constant") or {}).get("constant")
        bad = [mm for mm in res["mismatches"] if want is None or mm["constant"] == want]
        if bad:
            print(json.dumps(bad[0]))
            print("VIOLATION property=%s replay=%s" % (prop, path))
            return 1
        print("replay: %s equals its definition in %s/%s (%d constants compared)" % (want or "every constant", cfg, prof, res["total"]))
        return 0
    if body.get("shard_replay"):
        sr = body["shard_replay"]
        job = Job(eng, cfg, prof, instr=body.get("instr", "native"), shards=sr["shards"], budget=sr["budget"], args=sr["job_args"])
        job.miriflags = sr.get("miriflags", "")
        job.bindir = build(cfg, prof, [eng], job.instr)
        r = run_shard(job, sr["idx"], body.get("property", prop), sr["seed"], workdir)
        srep = sanitizer_report(r)
        if srep is not None:
            print(srep["excerpt"])
            print("VIOLATION property=%s replay=%s" % (prop, path))
            return 1
        if r.summary is None:
            print("INCONCLUSIVE: property=%s replayed shard ended abnormally without a recognisable report (rc=%s)" % (prop, r.rc))
            return 3
        if r.summary.get("nviol", 0) > 0:
            print("VIOLATION property=%s replay=%s" % (prop, path))
            return 1
        print("replay: property held on this shard")
        return 0
    extra = []
    if body.get("case_key") is not None or body.get("case_key_file"):
        kf = body.get("case_key_file")
        if not kf:
            kf = os.path.join(workdir, "replay.case")
            open(kf, "w").write(body["case_key"])
        extra += ["--case-file", kf, "--fmt", body.get("fmt", "f64")]
    if body.get("pair_keys"):
        kf = os.path.join(workdir, "replay.pair")
        open(kf, "w").write("\n".join(body["pair_keys"]) + "\n")
        extra += ["--pair-file", kf, "--fmt", body.get("fmt", "f64")]
    for a in body.get("replay_args", []):
        extra.append(a)
    if "did not return" in body.get("what", ""):
        job.timeout = 60
    r = run_shard(job, 0, body.get("property", prop), seed(), workdir, extra)
    sys.stdout.write(r.stdout[-4000:])
    if r.timed_out and "did not return" in body.get("what", ""):
        print("replay: the call still does not return within 60 s")
        print("VIOLATION property=%s replay=%s" % (prop, path))
        return 1
    if r.summary is None:
        print("replay: engine ended abnormally (rc=%s)\n%s" % (r.rc, tail(r.stderr, 10)))
        print("VIOLATION property=%s replay=%s" % (prop, path))
        return 1
    if r.summary.get("nviol", 0) > 0:
        print("VIOLATION property=%s replay=%s" % (prop, path))
        return 1
    if body.get("what") == "configurations disagree":
        # re-run in the reference configuration and compare
        ref = body.get("reference_config", "default")
        j2 = Job(eng, ref, prof, shards=1, budget=60)
        j2.bindir = build(ref, prof, [eng])
        r2 = run_shard(j2, 0, "C04", seed(), workdir, extra)
        s1 = [x for x in r.summary.get("samples", [])]
        s2 = [x for x in (r2.summary or {}).get("samples", [])]
        if s1 and s2 and s1[0].get("bits") != s2[0].get("bits"):
            print("%s: %s, %s: %s" % (cfg, s1[0].get("bits"), ref, s2[0].get("bits")))
            print("VIOLATION property=%s replay=%s" % (prop, path))
            return 1
    print("replay: property held on this case")
    return 0


# ---------------------------------------------------------------------------- setup

ALL_BINS = ["eng_parse", "eng_moderate", "eng_bigint", "eng_consts", "eng_float", "eng_front", "eng_mem", "eng_pure"]


def setup():
    """Build every matrix cell the quick checks use, so that later checks only rebuild what changed."""
    t0 = time.time()
    os.makedirs(WORK, exist_ok=True)
    os.makedirs(REPLAYS, exist_ok=True)
    ok = True
    cells = [(c, "rel", "native") for c in CFG8] + [(c, "chk", "native") for c in CFG8]
    cells += [("default", "rel", "asan"), ("alloc", "rel", "asan")]

    def one(cell):
        try:
            bins = ALL_BINS if cell[2] == "native" else ["eng_mem"]
            build(cell[0], cell[1], bins, cell[2])
            return None
        except BuildError as e:
            return str(e)

    from concurrent.futures import ThreadPoolExecutor
    with ThreadPoolExecutor(max_workers=6) as ex:
        for err in ex.map(one, cells):
            if err:
                ok = False
                print(err)
    # interpreter builds (one target dir per configuration/profile; Stacked/Tree Borrows share it)
    mcells = [("default", "rel"), ("default", "chk"), ("alloc", "rel"), ("nostd+compact", "rel"), ("compact", "chk")]

    def miri_one(cell):
        try:
            build(cell[0], cell[1], ["eng_mem", "eng_bigint", "eng_pure"], "miri-sb")
            return None
        except BuildError as e:
            return str(e)

    with ThreadPoolExecutor(max_workers=5) as ex:
        for err in ex.map(miri_one, mcells):
            if err:
                ok = False
                print(err)
    _, ferr = fuzz_build("default")
    if not ferr:
        _, ferr = fuzz_build("default", True)
    if ferr:
        ok = False
        print("fuzz target does not build:\n" + ferr)
    print("setup: built %d native/asan cells, %d interpreter cells and the fuzz target in %.0fs" % (len(cells), len(mcells), time.time() - t0))
    return 0 if ok else 1
