"""Shared machinery of ./check: build matrix, shard execution, merging, verdicts."""
import json, os, sys, subprocess, time, shutil, re, signal
from concurrent.futures import ThreadPoolExecutor

VERIF = os.path.dirname(os.path.dirname(os.path.abspath(__file__)))
HARNESS = os.path.join(VERIF, "harness")
BUILD = os.path.join(VERIF, ".build")
WORK = os.path.join(VERIF, ".work")
EVID = os.path.join(VERIF, "evidence")
REPLAYS = os.path.join(VERIF, "replays")
CORPUS = os.path.join(VERIF, "corpus")
NCPU = min(16, os.cpu_count() or 4)


def _repo_dir():
    """The crate under test = the path dependency of the harness (normally /repo; a scratch copy in self-tests)."""
    try:
        for line in open(os.path.join(HARNESS, "Cargo.toml")):
            m = re.match(r'\s*minimal-lexical\s*=.*path\s*=\s*"([^"]+)"', line)
            if m:
                return m.group(1)
    except OSError:
        pass
    return "/repo"


REPO = _repo_dir()

FEATURES = {
    "default": "std",
    "compact": "std,compact",
    "alloc": "std,alloc",
    "compact+alloc": "std,compact,alloc",
    "nostd": "",
    "nostd+compact": "compact",
    "nostd+alloc": "alloc",
    "nostd+compact+alloc": "compact,alloc",
}
CFG5 = ["default", "compact", "alloc", "compact+alloc", "nostd+compact"]
CFG8 = CFG5 + ["nostd", "nostd+alloc", "nostd+compact+alloc"]
HOOK_FLAG = "--cfg minimal_lexical_verif"


def seed():
    try:
        return int(os.environ.get("VERIF_SEED", "1"))
    except ValueError:
        return 1


def budget_scale():
    try:
        return float(os.environ.get("VERIF_BUDGET_SCALE", "1"))
    except ValueError:
        return 1.0


def base_env():
    env = dict(os.environ)
    env["CARGO_NET_OFFLINE"] = "true"
    env.pop("RUSTFLAGS", None)
    env.pop("MIRIFLAGS", None)
    return env


class BuildError(Exception):
    pass


_built = {}


def cell_dir(cfg, prof, instr="native"):
    name = cfg.replace("+", "_") + "-" + prof + ("" if instr == "native" else "-" + instr)
    return os.path.join(BUILD, name)


MIRI_FLAGS = {
    "miri-sb": "-Zmiri-disable-isolation -Zmiri-no-extra-rounding-error",
    "miri-tb": "-Zmiri-disable-isolation -Zmiri-no-extra-rounding-error -Zmiri-tree-borrows",
    "miri-sb-i686": "-Zmiri-disable-isolation -Zmiri-no-extra-rounding-error",
}


def miri_cmd(cfg, prof, engine, instr="miri-sb"):
    i686 = instr.endswith("-i686")
    cmd = ["cargo", "+nightly", "miri", "run", "--offline", "--quiet", "--manifest-path", os.path.join(HARNESS, "Cargo.toml"),
           "--target-dir", cell_dir(cfg, prof, "miri-i686" if i686 else "miri")]
    if i686:
        # a 32-bit target: the crate's 32-bit-limb big-integer code (LIMB_BITS == 32) only exists there
        cmd += ["--target", "i686-unknown-linux-gnu"]
    cmd += ["--release"] if prof == "rel" else ["--profile", "chk"]
    if FEATURES[cfg]:
        cmd += ["--features", FEATURES[cfg]]
    cmd += ["--bin", engine, "--"]
    return cmd


def build(cfg, prof, bins, instr="native"):
    """Build harness binaries for one matrix cell from /repo's current tree. Returns dir with the binaries."""
    key = (cfg, prof, instr, tuple(sorted(bins)))
    if key in _built:
        return _built[key]
    if instr.startswith("miri"):
        # warm-up: make cargo-miri compile the binary once, before shards run in parallel
        env = base_env()
        env["RUSTFLAGS"] = HOOK_FLAG
        env["MIRIFLAGS"] = MIRI_FLAGS[instr]
        for b in bins:
            p = subprocess.run(miri_cmd(cfg, prof, b, instr) + ["--warmup"], env=env, stdout=subprocess.PIPE, stderr=subprocess.STDOUT, text=True)
            if p.returncode != 0:
                raise BuildError("miri build failed for %s/%s %s:\n%s" % (cfg, prof, b, tail(p.stdout, 40)))
        _built[key] = "MIRI"
        return "MIRI"
    if instr == "valgrind":
        out = build(cfg, prof, bins, "native")
        _built[key] = out
        return out
    tdir = cell_dir(cfg, prof, instr)
    env = base_env()
    cmd = ["cargo"]
    rustflags = HOOK_FLAG
    target = []
    if instr == "asan":
        cmd.append("+nightly")
        rustflags += " -Zsanitizer=address -Cforce-frame-pointers=yes"
        target = ["--target", "x86_64-unknown-linux-gnu"]
    elif instr == "tsan":
        cmd.append("+nightly")
        rustflags += " -Zsanitizer=thread"
        target = ["--target", "x86_64-unknown-linux-gnu", "-Zbuild-std"]
    elif instr == "cov":
        cmd.append("+nightly")
        rustflags += " -Cinstrument-coverage"
    if prof == "relnative":
        # optimised for the host CPU: code behind cfg(target_feature = ...) (bmi1, lzcnt, avx2 ...) only exists in such builds
        rustflags += " -C target-cpu=native"
    env["RUSTFLAGS"] = rustflags
    cmd += ["build", "--offline", "--quiet", "--manifest-path", os.path.join(HARNESS, "Cargo.toml"), "--target-dir", tdir]
    cmd += ["--release"] if prof in ("rel", "relnative") else ["--profile", "chk"]
    if FEATURES[cfg]:
        cmd += ["--features", FEATURES[cfg]]
    for b in bins:
        cmd += ["--bin", b]
    cmd += target
    p = subprocess.run(cmd, env=env, stdout=subprocess.PIPE, stderr=subprocess.STDOUT, text=True)
    if p.returncode != 0:
        raise BuildError("build failed for %s/%s/%s %s:\n%s" % (cfg, prof, instr, bins, tail(p.stdout, 40)))
    sub = "release" if prof in ("rel", "relnative") else "chk"
    out = os.path.join(tdir, "x86_64-unknown-linux-gnu", sub) if target else os.path.join(tdir, sub)
    _built[key] = out
    return out


def tail(s, n):
    return "\n".join(s.splitlines()[-n:])


class Job:
    """One (engine, configuration, profile, instrumentation) with n shards."""

    def __init__(self, engine, cfg="default", prof="rel", instr="native", shards=1, budget=10.0, args=None, name=None, timeout=None, wrapper=None, env=None):
        self.engine, self.cfg, self.prof, self.instr = engine, cfg, prof, instr
        self.shards, self.budget = shards, budget
        self.args = list(args or [])
        self.name = name or "%s-%s-%s%s" % (engine, cfg.replace("+", "_"), prof, "" if instr == "native" else "-" + instr)
        self.timeout = timeout
        self.wrapper = wrapper or []
        self.env = env or {}
        self.bindir = None


class ShardResult:
    def __init__(self, job, idx):
        self.job, self.idx = job, idx
        self.rc = None
        self.summary = None
        self.stdout = ""
        self.stderr = ""
        self.timed_out = False
        self.cmd = []
        self.wall = 0.0


def run_shard(job, idx, prop, sd, workdir, extra_args=None):
    res = ShardResult(job, idx)
    logf = os.path.join(workdir, "%s-%d.log" % (job.name, idx))
    if job.instr.startswith("miri"):
        launcher = miri_cmd(job.cfg, job.prof, job.engine, job.instr)
    else:
        wrapper = list(job.wrapper)
        if job.instr == "valgrind":
            wrapper = ["valgrind", "--quiet", "--error-exitcode=88", "--track-origins=no", "--read-var-info=no"] + wrapper
        launcher = wrapper + [os.path.join(job.bindir, job.engine)]
    cmd = launcher + ["--prop", prop, "--seed", str(sd), "--shard", "%d/%d" % (idx, job.shards), "--budget-s", "%.1f" % job.budget,
                               "--replay-dir", REPLAYS, "--log", logf,
                               "--corpus64", os.path.join(CORPUS, "cf_hard_f64.txt"), "--corpus32", os.path.join(CORPUS, "cf_hard_f32.txt"),
                               "--corpus64s", os.path.join(CORPUS, "cf_short_f64.txt"), "--corpus32s", os.path.join(CORPUS, "cf_short_f32.txt"),
                               "--corpus-limb", os.path.join(CORPUS, "limb_struct_f64_small.txt" if "--limb-max-digits" in job.args else "limb_struct_f64.txt")] + job.args + list(extra_args or [])
    res.cmd = cmd
    env = base_env()
    if job.instr.startswith("miri"):
        env["RUSTFLAGS"] = HOOK_FLAG
        env["MIRIFLAGS"] = MIRI_FLAGS[job.instr] + (" " + job.miriflags if getattr(job, "miriflags", "") else "")
    if job.instr == "tsan":
        env["TSAN_OPTIONS"] = "halt_on_error=1:exitcode=66:report_signal_unsafe=0"
    if job.instr == "asan":
        env["ASAN_OPTIONS"] = "halt_on_error=1:abort_on_error=0:detect_leaks=0:exitcode=77"
    env.update(job.env)
    to = job.timeout or (job.budget * 6 + 120)
    t0 = time.time()
    try:
        p = subprocess.run(cmd, env=env, stdout=subprocess.PIPE, stderr=subprocess.PIPE, timeout=to)
        res.rc = p.returncode
        res.stdout = p.stdout.decode("utf-8", "replace")
        res.stderr = p.stderr.decode("utf-8", "replace")
    except subprocess.TimeoutExpired as e:
        res.timed_out = True
        res.stdout = (e.stdout or b"").decode("utf-8", "replace")
        res.stderr = (e.stderr or b"").decode("utf-8", "replace")
    res.wall = time.time() - t0
    for line in res.stdout.splitlines():
        if line.startswith("SUMMARY "):
            try:
                res.summary = json.loads(line[8:])
            except Exception:
                res.summary = None
    res.logfile = logf
    return res


def run_jobs(prop, jobs, sd, workdir, extra_args=None, parallel=NCPU):
    """Build what is needed, then run all shards of all jobs on a pool."""
    tasks = []
    for j in jobs:
        if j.bindir is None:
            j.bindir = build(j.cfg, j.prof, [j.engine], j.instr)
        for i in range(j.shards):
            tasks.append((j, i))
    with ThreadPoolExecutor(max_workers=parallel) as ex:
        futs = [ex.submit(run_shard, j, i, prop, sd, workdir, extra_args) for (j, i) in tasks]
        return [f.result() for f in futs]


class Merged:
    def __init__(self):
        self.evals = 0
        self.distinct = 0
        self.counters = {}
        self.maxima = {}
        self.minima = {}
        self.violations = []  # dicts with sig/what/replay/...
        self.nviol = 0
        self.inconclusive = []
        self.samples = []
        self.required = {}  # name -> list of job names requiring it
        self.per_job = {}
        self.extras = []  # (job name, shard, extra dict)
        self.saturated = False


def merge(results, m=None):
    m = m or Merged()
    for r in results:
        jn = r.job.name
        pj = m.per_job.setdefault(jn, {"shards": 0, "evals": 0, "wall_s": 0.0})
        pj["shards"] += 1
        pj["wall_s"] = round(pj["wall_s"] + r.wall, 1)
        if r.summary is None:
            continue
        s = r.summary
        m.evals += s["evals"]
        pj["evals"] += s["evals"]
        m.distinct += s.get("distinct", 0)
        m.saturated = m.saturated or s.get("distinct_saturated", False)
        for k, v in s.get("counters", {}).items():
            m.counters[k] = m.counters.get(k, 0) + v
        for k, v in s.get("maxima", {}).items():
            m.maxima[k] = max(m.maxima.get(k, v), v)
        for k, v in s.get("minima", {}).items():
            m.minima[k] = min(m.minima.get(k, v), v)
        for v in s.get("violations", []):
            v = dict(v)
            v["job"] = jn
            m.violations.append(v)
        m.nviol += s.get("nviol", 0)
        for i in s.get("inconclusive", []):
            m.inconclusive.append("%s: %s" % (jn, i))
        if len(m.samples) < 24:
            for x in s.get("samples", [])[: 3 if len(results) > 4 else 12]:
                m.samples.append(x)
        for k in s.get("required", []):
            m.required.setdefault(k, set()).add(jn)
        m.extras.append((jn, r.idx, s.get("extra", {})))
    return m


def abnormal(results):
    """Shards that did not end with a SUMMARY: (result, description)."""
    out = []
    for r in results:
        if r.summary is None:
            if r.timed_out:
                out.append((r, "watchdog timeout"))
            elif r.rc is not None and r.rc < 0:
                try:
                    sn = signal.Signals(-r.rc).name
                except Exception:
                    sn = str(-r.rc)
                out.append((r, "killed by signal %s" % sn))
            else:
                out.append((r, "exit status %s without summary" % r.rc))
    return out


# ---------------------------------------------------------------- sanitizer / interpreter reports

def first_repo_frame(text):
    """First stack frame (file:line) inside the crate under test."""
    m = re.search(re.escape(REPO) + r"/(src/[a-z_]+\.rs):(\d+)", text)
    if m:
        return "%s:%s" % (m.group(1), m.group(2))
    # valgrind: "by 0x...: minimal_lexical::bigint::small_mul (bigint.rs:457)"
    m = re.search(r"minimal_lexical::[^\n]*?\(([a-z_]+\.rs):(\d+)\)", text)
    if m:
        return "src/%s:%s" % (m.group(1), m.group(2))
    return None


def sanitizer_report(res):
    """Recognise a Miri / ASan / valgrind report in a shard's stderr. Returns dict or None."""
    err = res.stderr or ""
    m = re.search(r"error: Undefined Behavior: ([^\n]*)", err)
    if m:
        # the report proper starts at the match
        rep = err[m.start():]
        frame = first_repo_frame(rep)
        return {"tool": "miri", "kind": "Undefined Behavior", "message": m.group(1).strip(), "frame": frame, "excerpt": tail(rep[:6000], 60)}
    m = re.search(r"error: (unsupported operation|memory leaked|the evaluated program [^\n]*|deadlock[^\n]*|[^\n]*data race[^\n]*)", err, re.I)
    if m and "miri" in " ".join(res.cmd):
        rep = err[m.start():]
        return {"tool": "miri", "kind": m.group(1).strip(), "message": m.group(0).strip(), "frame": first_repo_frame(rep), "excerpt": tail(rep[:6000], 60), "maybe_harness": "unsupported" in m.group(1)}
    m = re.search(r"ERROR: AddressSanitizer: ([^\n]*)", err)
    if m:
        rep = err[m.start():]
        return {"tool": "asan", "kind": "AddressSanitizer", "message": m.group(1).strip(), "frame": first_repo_frame(rep), "excerpt": tail(rep[:8000], 60)}
    m = re.search(r"==\d+== (Invalid (?:read|write)[^\n]*|Conditional jump or move depends on uninitialised[^\n]*|Use of uninitialised[^\n]*|Syscall param[^\n]*uninitialised[^\n]*|Process terminating with default action of signal[^\n]*|Invalid free[^\n]*|Mismatched free[^\n]*)", err)
    if m:
        rep = err[m.start():]
        return {"tool": "valgrind", "kind": "memcheck", "message": m.group(1).strip(), "frame": first_repo_frame(rep), "excerpt": tail(rep[:8000], 60)}
    m = re.search(r"WARNING: ThreadSanitizer: ([^\n]*)", err)
    if m:
        rep = err[m.start():]
        return {"tool": "tsan", "kind": "ThreadSanitizer", "message": m.group(1).strip(), "frame": first_repo_frame(rep), "excerpt": tail(rep[:8000], 60)}
    return None


# ---------------------------------------------------------------- known findings

def load_known():
    known, fixed = [], []
    p = os.path.join(VERIF, "known_findings.txt")
    if os.path.exists(p):
        for line in open(p):
            line = line.strip()
            if line.startswith("known:"):
                m = re.match(r"known:\s*property=(\S+)\s+signature=(\S+)\s*(.*)", line)
                if m:
                    known.append((m.group(1), m.group(2), m.group(3)))
            elif line.startswith("fixed:"):
                fixed.append(line)
    return known, fixed


# ---------------------------------------------------------------- evidence / verdict

def write_evidence(prop, tier, sd, level, coverage, assumptions, wall, nviol):
    os.makedirs(EVID, exist_ok=True)
    ev = {
        "property_id": prop,
        "tier": tier,
        "seed": sd,
        "level": level,
        "coverage": coverage,
        "assumptions": assumptions,
        "wall_s": round(wall, 2),
        "violations": nviol,
    }
    tmp = os.path.join(EVID, prop + ".json.tmp")
    with open(tmp, "w") as f:
        json.dump(ev, f, indent=1, sort_keys=False)
        f.write("\n")
    os.replace(tmp, os.path.join(EVID, prop + ".json"))


def write_replay(prop, sd, n, body):
    os.makedirs(REPLAYS, exist_ok=True)
    p = os.path.join(REPLAYS, "%s-%d-%d.json" % (prop, sd, n))
    with open(p, "w") as f:
        json.dump(body, f, indent=1)
        f.write("\n")
    return p


def conclude(prop, violations, inconclusive):
    """Print the verdict lines and return the exit code.
    violations: list of dicts with 'sig', 'what', 'replay'."""
    known, _fixed = load_known()
    ksigs = {(p, s): d for (p, s, d) in known}
    seen_known = set()
    real = []
    for v in violations:
        k = (prop, v.get("sig", ""))
        if k in ksigs:
            if k not in seen_known:
                seen_known.add(k)
                print("KNOWN-FINDING: property=%s %s %s" % (prop, v.get("sig"), ksigs[k]))
        else:
            real.append(v)
    shown = set()
    for v in real:
        key = v.get("replay")
        if key in shown:
            continue
        shown.add(key)
        if len(shown) <= 25:
            print("VIOLATION property=%s replay=%s" % (prop, v.get("replay")))
            print("  what: %s | %s" % (v.get("what"), json.dumps({k: v[k] for k in v if k not in ("sig", "what", "replay")})[:600]))
    if real:
        print("RESULT %s: VIOLATED (%d distinct witnesses shown)" % (prop, len(shown)))
        return 1
    if inconclusive:
        for i in inconclusive[:20]:
            print("INCONCLUSIVE: property=%s %s" % (prop, i))
        print("RESULT %s: INCONCLUSIVE" % prop)
        return 3
    print("RESULT %s: held on everything observed" % prop)
    return 0


def fresh_workdir(prop):
    d = os.path.join(WORK, prop)
    shutil.rmtree(d, ignore_errors=True)
    os.makedirs(d, exist_ok=True)
    # replay files of the previous run of this property are superseded
    try:
        with os.scandir(REPLAYS) as it:
            for e in it:
                if e.name.startswith(prop + "-") and e.is_file():
                    try:
                        os.unlink(e.path)
                    except OSError:
                        pass
    except OSError:
        pass
    return d
