#!/usr/bin/env python3
"""C14: definitions of every power constant, from Python integers, compared with what the
running program dumped (eng_consts). Independent of etc/*.py (which are additionally run as a
third opinion by the runner when present).

usage: consts.py DUMPFILE   -> JSON {checked: {...}, mismatches: [...], missing: [...]}
"""
import sys, json, struct
from fractions import Fraction


def f64_bits(x):
    return struct.unpack(">Q", struct.pack(">d", x))[0]


def exact_float_bits(n, mant_bits, exp_bits):
    """bits of the float equal to integer n, or None if n is not exactly representable"""
    bias = (1 << (exp_bits - 1)) - 1
    if n == 0:
        return 0
    bl = n.bit_length()
    tz = (n & -n).bit_length() - 1
    if bl - tz > mant_bits + 1:
        return None
    e = bl - 1
    frac = (n << (mant_bits - e)) if e <= mant_bits else (n >> (e - mant_bits))
    return ((e + bias) << mant_bits) | (frac & ((1 << mant_bits) - 1))


def pow5_128(q):
    """Eisel-Lemire significand for 5^q: positive q: 5^q normalised to 128 bits, truncated;
    negative q: 2^b // 5^-q + 1, normalised to 128 bits (truncated)."""
    if q >= 0:
        p = 5 ** q
        bl = p.bit_length()
        return p << (128 - bl) if bl <= 128 else p >> (bl - 128)
    p = 5 ** (-q)
    z = (p - 1).bit_length()  # smallest z with 2^z >= p
    if q >= -27:
        b = z + 127
        return (1 << b) // p + 1
    b = 2 * z + 128
    c = (1 << b) // p + 1
    return c >> (c.bit_length() - 128)


def bell(k):
    """(mantissa, exponent) of 10^k truncated to 64 bits, normalised: 10^k ~= mant * 2^exp."""
    if k >= 0:
        v = 10 ** k
        bl = v.bit_length()
        mant = v << (64 - bl) if bl <= 64 else v >> (bl - 64)
        return mant, bl - 64
    d = 10 ** (-k)
    # floor(2^s / d) with 64 bits
    s = d.bit_length() + 64
    m = (1 << s) // d
    while m.bit_length() > 64:
        s -= 1
        m = (1 << s) // d
    while m.bit_length() < 64:
        s += 1
        m = (1 << s) // d
    return m, -s


def main():
    dump = open(sys.argv[1]).read().splitlines()
    checked = {}
    bad = []
    seen_end = False
    cfg = None
    lemire_floor_log2 = {}
    params = None

    def chk(kind, key, got, want):
        checked[kind] = checked.get(kind, 0) + 1
        if got != want:
            bad.append({"constant": "%s[%s]" % (kind, key), "observed": str(got), "definition": str(want)})

    for line in dump:
        t = line.split()
        if not t:
            continue
        k = t[0]
        if k == "CONFIG":
            cfg = t[1]
        elif k == "END":
            seen_end = True
        elif k in ("INT_POW5", "TABLE_INT_POW5"):
            chk(k, t[1], int(t[2]), 5 ** int(t[1]))
        elif k in ("INT_POW10", "TABLE_INT_POW10"):
            chk(k, t[1], int(t[2]), 10 ** int(t[1]))
        elif k in ("F64_POW10", "TABLE_F64_POW10"):
            e = int(t[1])
            want = exact_float_bits(10 ** e, 52, 11) if e <= 22 else 0
            chk(k, t[1], int(t[2], 16), want)
        elif k in ("F32_POW10", "TABLE_F32_POW10"):
            e = int(t[1])
            want = exact_float_bits(10 ** e, 23, 8) if e <= 10 else 0
            chk(k, t[1], int(t[2], 16), want)
        elif k == "POW5_RANGE":
            chk(k, "min", int(t[1]), -342)
            chk(k, "max", int(t[2]), 308)
            chk(k, "len", int(t[3]), 651)
        elif k == "POW5_128":
            q = int(t[1])
            got = (int(t[2], 16) << 64) | int(t[3], 16)
            chk(k, t[1], got, pow5_128(q))
        elif k == "LARGE_POW5":
            step = int(t[1])
            limbs = [int(x) for x in t[2:]]
            got = sum(v << (64 * i) for i, v in enumerate(limbs))
            chk(k, "step", step, 135)
            chk(k, "value", got, 5 ** 135)
            chk(k, "limbs", len(limbs), 5)
        elif k == "LEMIRE_POWER":
            q = int(t[1])
            # floor(log2(10^q)) + 63 is what the algorithm needs: 2^(p-63) <= 10^q normalised top bit
            f = Fraction(10) ** q
            fl = f.numerator.bit_length() - f.denominator.bit_length()
            if (Fraction(2) ** fl) > f:
                fl -= 1
            chk(k, t[1], int(t[2]), fl + 63)
        elif k == "BELL_PARAMS":
            params = [int(x) for x in t[1:]]
            chk(k, "step", params[0], 10)
            chk(k, "bias", params[1], 350)
            chk(k, "small_len", params[4], 10)
            chk(k, "large_len", params[5], 66)
            chk(k, "small_int_len", params[6], 10)
        elif k == "BELL_SMALL":
            i = int(t[1])
            m, e = bell(i)
            chk(k, t[1] + ".mant", int(t[2]), m)
            chk(k, t[1] + ".exp", int(t[3]), e)
        elif k == "BELL_LARGE":
            i = int(t[1])
            m, e = bell(i * 10 - 350)
            chk(k, t[1] + ".mant", int(t[2]), m)
            chk(k, t[1] + ".exp", int(t[3]), e)
        elif k == "BELL_SMALL_INT":
            chk(k, t[1], int(t[2]), 10 ** int(t[1]))
        elif k in ("F64_CONSTS", "F32_CONSTS"):
            # informational only (digit cut-offs and exponent ranges are not power constants; other values can be
            # equally correct, e.g. a larger MAX_DIGITS) - not judged here
            pass
    missing = []
    compact = cfg is not None and "compact" in cfg
    need = {"INT_POW5": 28, "INT_POW10": 20, "F64_POW10": 23, "F32_POW10": 11}
    if compact:
        need.update({"BELL_SMALL": 20, "BELL_LARGE": 132, "BELL_SMALL_INT": 10})
    else:
        need.update({"POW5_128": 651, "TABLE_INT_POW5": 28, "TABLE_INT_POW10": 20, "TABLE_F64_POW10": 32, "TABLE_F32_POW10": 16, "LARGE_POW5": 3, "LEMIRE_POWER": 651})
    for k, n in need.items():
        if checked.get(k, 0) != n:
            missing.append("%s: %d of %d entries" % (k, checked.get(k, 0), n))
    if not seen_end:
        missing.append("dump is incomplete (no END line)")
    print(json.dumps({"config": cfg, "checked": checked, "total": sum(checked.values()), "mismatches": bad[:40], "n_mismatches": len(bad), "missing": missing}))


if __name__ == "__main__":
    main()
