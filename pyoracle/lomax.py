#!/usr/bin/env python3
"""Inputs that drive Eisel-Lemire's `lo == 0xFFFF_FFFF_FFFF_FFFF` fallback: for each q whose 128-bit table
significand has an odd high word T, the unique normalised 64-bit w with (w * T) mod 2^64 == 2^64 - 1.
Appended to corpus/cf_hard_*.txt (marked by a comment line) so that C11 / C01 reach that branch."""
import sys, os
sys.path.insert(0, os.path.dirname(os.path.abspath(__file__)))
from consts import pow5_128
M = 1 << 64
rows64, rows32 = [], []
for q in range(-342, 309):
    T = pow5_128(q) >> 64
    if T % 2 == 0:
        continue
    w = (-pow(T, -1, M)) % M
    assert (w * T) % M == M - 1
    if w >> 63 == 1:
        rows64.append((w, q))
        if -65 <= q <= 38:
            rows32.append((w, q))
base = os.path.join(os.path.dirname(os.path.dirname(os.path.abspath(__file__))), "corpus")
for name, rows in (("f64", rows64), ("f32", rows32)):
    p = os.path.join(base, "cf_hard_%s.txt" % name)
    txt = open(p).read()
    mark = "# lo==MAX cases (pyoracle/lomax.py)"
    if mark in txt:
        txt = txt[:txt.index(mark)]
    with open(p, "w") as f:
        f.write(txt)
        f.write(mark + "\n")
        for w, q in rows:
            f.write("%d %d\n" % (w, q))
    print(name, len(rows))
