#!/usr/bin/env python3
"""Offline checker over the sampled event logs written by the engines.

Each line:  <fmt> <integer digits or -> <fraction digits or -> <exponent> <observed bits hex>
The correctly rounded value is recomputed from the definition with Python's
arbitrary-precision integers only (no float arithmetic, no shared code with the
Rust oracle), and compared with what the crate returned.

usage: recheck.py [--max N] LOGFILE...     -> one JSON object on stdout
"""
import sys, json, os
from multiprocessing import Pool

sys.set_int_max_str_digits(0)

FMT = {"f64": (52, 11), "f32": (23, 8)}


def round_nearest_even(n, e10, mant_bits, exp_bits):
    """n * 10^e10 (n >= 0 integer) -> IEEE bits, round to nearest, ties to even."""
    if n == 0:
        return 0
    bias = (1 << (exp_bits - 1)) - 1
    p = mant_bits + 1
    emin = 1 - bias  # exponent of the smallest normal binade
    inf = ((1 << exp_bits) - 1) << mant_bits
    # value = num / den
    if e10 >= 0:
        # cheap early out on magnitude (avoids 10**(2**31))
        if e10 + len(str(n)) - 1 > 400:
            return inf
        num, den = n * 10 ** e10, 1
    else:
        if e10 + len(str(n)) < -400:
            return 0
        num, den = n, 10 ** (-e10)
    # find e with 2^e <= value < 2^(e+1)
    e = num.bit_length() - den.bit_length()
    if e >= 0:
        if num < (den << e):
            e -= 1
    else:
        if (num << -e) < den:
            e -= 1
    # quantum exponent: ulp = 2^(qe)
    qe = max(e, emin) - mant_bits
    # q = floor(value / 2^qe), remainder compared with half
    if qe >= 0:
        d = den << qe
        q, r = divmod(num, d)
    else:
        d = den
        q, r = divmod(num << -qe, d)
    twice = 2 * r
    if twice > d or (twice == d and (q & 1)):
        q += 1
    # q may have reached 2^p (carry) -> encoding still works arithmetically
    if q >= (1 << p):
        q >>= 1
        qe += 1
    if q < (1 << mant_bits):
        bits = q  # subnormal (or zero)
    else:
        be = qe + mant_bits + bias
        if be >= (1 << exp_bits) - 1:
            return inf
        bits = (be << mant_bits) | (q - (1 << mant_bits))
    return bits


def check_line(line):
    parts = line.split()
    if len(parts) != 5:
        return None
    fmt, i, f, e, obs = parts
    i = "" if i == "-" else i
    f = "" if f == "-" else f
    mant_bits, exp_bits = FMT[fmt]
    digits = i + f
    n = int(digits) if digits else 0
    e10 = int(e) - len(f)
    want = round_nearest_even(n, e10, mant_bits, exp_bits)
    got = int(obs, 16)
    if want != got:
        return {"fmt": fmt, "integer": i[:60], "fraction": f[:60], "ndigits": len(digits), "exponent": int(e), "observed": obs, "python": "%x" % want}
    return True


def work(path_and_max):
    path, mx = path_and_max
    n = 0
    bad = []
    try:
        with open(path) as fh:
            for line in fh:
                if n >= mx:
                    break
                r = check_line(line)
                if r is None:
                    continue
                n += 1
                if r is not True:
                    r["log"] = os.path.basename(path)
                    bad.append(r)
    except FileNotFoundError:
        pass
    return n, bad


def main():
    args = sys.argv[1:]
    mx = 10 ** 9
    if args and args[0] == "--max":
        mx = int(args[1])
        args = args[2:]
    files = args
    per = max(1, mx // max(1, len(files)))
    with Pool(min(16, max(1, len(files)))) as pool:
        res = pool.map(work, [(f, per) for f in files])
    n = sum(r[0] for r in res)
    bad = [b for r in res for b in r[1]]
    print(json.dumps({"checked": n, "mismatches": bad[:50], "n_mismatches": len(bad)}))


if __name__ == "__main__":
    main()
