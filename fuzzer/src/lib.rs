// intentionally empty
