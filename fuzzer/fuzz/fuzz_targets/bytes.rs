#![no_main]
#![feature(panic_can_unwind)]
//! C08: coverage-guided arbitrary bytes into parse_float under AddressSanitizer. A clean panic is allowed (the
//! documentation promises "returns a float or panics cleanly"): the libFuzzer panic hook is replaced by a silent one
//! and the call is wrapped in catch_unwind, so that only a sanitizer report or a signal ends the process.
use libfuzzer_sys::fuzz_target;
use std::sync::Once;

static HOOK: Once = Once::new();

// input layout: [selector][exponent: 4 bytes LE][split: 2 bytes LE][integer bytes ++ fraction bytes]
fuzz_target!(|data: &[u8]| {
    // unwinding panics are silent (and caught below); a panic that cannot unwind - the standard library's checks of unsafe
    // preconditions ("unsafe precondition(s) violated: slice::get_unchecked requires ...") abort the process - says what it is
    HOOK.call_once(|| {
        std::panic::set_hook(Box::new(|info| {
            if !info.can_unwind() {
                eprintln!("NON-UNWINDING PANIC: {}", info);
            }
        }))
    });
    if data.len() < 7 {
        return;
    }
    let sel = data[0];
    let raw = i32::from_le_bytes([data[1], data[2], data[3], data[4]]);
    // exponent classes: small (most of the interesting code), medium, the whole i32 range
    let exponent = match sel >> 2 & 3 {
        0 => raw % 64,
        1 => raw % 512,
        2 => raw % 40_000,
        _ => raw,
    };
    let split = u16::from_le_bytes([data[5], data[6]]) as usize;
    let rest = &data[7..];
    let split = if rest.is_empty() { 0 } else { split % (rest.len() + 1) };
    let (int, frac) = rest.split_at(split);
    // bit 4: map every byte to an ASCII digit (valid input: deep paths); otherwise raw bytes (precondition violations)
    let digits = sel & 16 != 0;
    let map = |b: &[u8]| -> Vec<u8> { if digits { b.iter().map(|c| b'0' + c % 10).collect() } else { b.to_vec() } };
    let (int, frac) = (map(int), map(frac));
    let _ = std::panic::catch_unwind(|| {
        if sel & 1 == 0 {
            std::hint::black_box(minimal_lexical::parse_float::<f64, _, _>(int.iter(), frac.iter(), exponent));
        } else {
            std::hint::black_box(minimal_lexical::parse_float::<f32, _, _>(int.iter(), frac.iter(), exponent));
        }
    });
});
