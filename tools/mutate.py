#!/usr/bin/env python3
"""Systematic small mutants of the crate: enumerate operator / literal mutations, keep those that compile in four
configurations and pass the unedited test suite (= realistic slips the suite does not notice), as patch files.

usage: mutate.py enumerate            -> prints the number of mutation points per file
       mutate.py survivors OUTDIR [N_PARALLEL] [MAX]   -> writes OUTDIR/<id>/patch.diff + info.json for survivors
"""
import re, os, sys, subprocess, json, random, shutil
from concurrent.futures import ThreadPoolExecutor

REPO = "/repo"
FILES = ["src/parse.rs", "src/number.rs", "src/lemire.rs", "src/bellerophon.rs", "src/slow.rs", "src/rounding.rs", "src/bigint.rs",
         "src/stackvec.rs", "src/heapvec.rs", "src/num.rs", "src/mask.rs", "src/extended_float.rs"]

RULES = [
    (r"<=", ["<"]), (r"(?<![<=>-])<(?![<=])", ["<="]), (r">=", [">"]), (r"(?<![=>-])>(?![>=])", [">="]),
    (r"==", ["!="]), (r"!=", ["=="]), (r"&&", ["||"]), (r"\|\|", ["&&"]),
    (r"\+ 1\b", ["+ 2", ""]), (r"- 1\b", ["- 2", ""]), (r"\+= 1\b", ["+= 2"]), (r"-= 1\b", ["-= 2"]),
    (r"saturating_(add|sub)", [r"wrapping_\1"]), (r"checked_(add|mul)\(([^)]*)\)\?", [r"wrapping_\1(\2)"]),
    (r"\b(\d{1,4})\b", ["+1", "-1"]),
    (r"\.min\(", [".max("]), (r"<<", [">>"]), (r"(?<![>])>>(?![>=])", ["<<"]),
    (r"\|= ", ["&= "]), (r"\bis_odd && is_halfway\b", ["is_halfway"]), (r"\bis_above \|\|", [""]),
    (r"!(?=[a-z(])", [""]),
]


def points():
    out = []
    for f in FILES:
        lines = open(os.path.join(REPO, f)).read().split("\n")
        in_generic = 0
        in_hook = False
        for ln, line in enumerate(lines):
            t = line.strip()
            if "cfg(minimal_lexical_verif)" in line:
                in_hook = True
                continue
            if in_hook:
                if t.endswith(");") or t.endswith(";"):
                    in_hook = False
                continue
            if not t or t.startswith("//") or t.startswith("#") or t.startswith("use ") or "verif" in line or "debug_assert" in line or t.startswith("pub mod") or t.startswith("///"):
                continue
            code = line.split("//")[0]
            # skip declarations where < > are generics
            generic_line = bool(re.search(r"\b(fn|impl|struct|trait|where|type|enum)\b|::<|Iterator<|Option<|-> ", code))
            for (pat, reps) in RULES:
                for m in re.finditer(pat, code):
                    if generic_line and pat in (r"(?<![<=>-])<(?![<=])", r"(?<![=>-])>(?![>=])", r"<<", r"(?<![>])>>(?![>=])"):
                        continue
                    for rep in reps:
                        if pat == r"\b(\d{1,4})\b":
                            v = int(m.group(1))
                            # skip literals that are part of identifiers / types / hex
                            pre = code[max(0, m.start() - 2):m.start()]
                            if re.search(r"[A-Za-z_x.]$", pre) or code[m.end():m.end() + 1] in ("_", "."):
                                continue
                            nv = v + 1 if rep == "+1" else v - 1
                            if nv < 0:
                                continue
                            new = code[:m.start()] + str(nv) + code[m.end():]
                        else:
                            new = code[:m.start()] + m.expand(rep) + code[m.end():]
                        if new == code:
                            continue
                        out.append({"file": f, "line": ln + 1, "old": line, "new": new + line[len(code):], "rule": pat, "rep": rep})
    # stable ids
    for i, p in enumerate(out):
        p["id"] = "m%04d" % i
    return out


def sh(cmd, cwd=None, timeout=900):
    # own process group, so that a mutant whose tests loop forever is killed together with its children
    import signal
    p = subprocess.Popen(cmd, shell=True, cwd=cwd, stdout=subprocess.PIPE, stderr=subprocess.STDOUT, text=True, start_new_session=True)
    try:
        out, _ = p.communicate(timeout=timeout)
    except subprocess.TimeoutExpired:
        os.killpg(p.pid, signal.SIGKILL)
        p.communicate()
        raise
    return subprocess.CompletedProcess(cmd, p.returncode, out, None)


def try_one(p, wt, outdir):
    path = os.path.join(wt, p["file"])
    orig = open(path).read()
    lines = orig.split("\n")
    assert lines[p["line"] - 1] == p["old"]
    lines[p["line"] - 1] = p["new"]
    open(path, "w").write("\n".join(lines))
    status = "?"
    try:
        env = "CARGO_NET_OFFLINE=true "
        ok = True
        for feat in ["", "--features compact", "--features alloc", "--no-default-features --features compact"]:
            r = sh(env + "cargo build --offline -q " + feat, cwd=wt)
            if r.returncode != 0:
                ok = False
                break
        if not ok:
            status = "does-not-compile"
        else:
            r = sh(env + "cargo test --offline --workspace --no-fail-fast -q 2>&1 | grep -E '^test result' | awk '{f+=$6} END {print f}'", cwd=wt)
            failed = r.stdout.strip()
            if failed != "0":
                status = "killed-by-suite"
            else:
                status = "survivor"
                d = os.path.join(outdir, p["id"])
                os.makedirs(d, exist_ok=True)
                diff = sh("git diff", cwd=wt).stdout
                open(os.path.join(d, "patch.diff"), "w").write(diff)
                json.dump(p, open(os.path.join(d, "info.json"), "w"), indent=1)
    finally:
        open(path, "w").write(orig)
    return status


def main():
    if sys.argv[1] == "enumerate":
        ps = points()
        by = {}
        for p in ps:
            by[p["file"]] = by.get(p["file"], 0) + 1
        print(len(ps), by)
        return
    outdir = sys.argv[2]
    npar = int(sys.argv[3]) if len(sys.argv) > 3 else 4
    mx = int(sys.argv[4]) if len(sys.argv) > 4 else 10 ** 9
    ps = points()
    random.Random(12345).shuffle(ps)
    ps = ps[:mx]
    os.makedirs(outdir, exist_ok=True)
    wts = []
    for i in range(npar):
        wt = "/tmp/mut/wt%d" % i
        if not os.path.exists(wt):
            sh("git -C /repo worktree add --detach %s HEAD -q" % wt)
        sh("git checkout -q -- .", cwd=wt)
        wts.append(wt)
    chunks = [ps[i::npar] for i in range(npar)]
    stats = {}

    def worker(i):
        res = []
        for p in chunks[i]:
            try:
                st = try_one(p, wts[i], outdir)
            except Exception as e:
                st = "error:%s" % e
            res.append((p["id"], st))
            print(p["id"], p["file"], p["line"], st, flush=True)
        return res

    with ThreadPoolExecutor(max_workers=npar) as ex:
        for res in ex.map(worker, range(npar)):
            for (_, st) in res:
                stats[st.split(":")[0]] = stats.get(st.split(":")[0], 0) + 1
    print("STATS", stats)


if __name__ == "__main__":
    main()
