#!/usr/bin/env python3
"""Summarise selftest/mut: per file survivors / caught / not caught, and list the uncaught mutants."""
import json, glob, os, sys
by = {}
unc = []
for d in sorted(glob.glob(sys.argv[1] if len(sys.argv) > 1 and sys.argv[1] != '-v' else '/verif/selftest/mut/m*')):
    if not os.path.exists(d + '/result.json'):
        continue
    info = json.load(open(d + '/info.json')); res = json.load(open(d + '/result.json'))
    f = info['file']; b = by.setdefault(f, {'checked': 0, 'caught': 0, 'by': {}})
    b['checked'] += 1
    if res.get('caught_by'):
        b['caught'] += 1
        for c in res['caught_by']:
            b['by'][c] = b['by'].get(c, 0) + 1
    else:
        inc = any(v.get('rc') == 3 for v in res.get('runs', {}).values())
        unc.append((info['id'], f, info['line'], info['old'].strip(), info['new'].strip(), 'inconclusive' if inc else ''))
tot = sum(b['checked'] for b in by.values()); c = sum(b['caught'] for b in by.values())
print("checked %d survivors: %d caught, %d not" % (tot, c, tot - c))
for f, b in sorted(by.items()):
    print("  %-24s %3d checked %3d caught %s" % (f, b['checked'], b['caught'], b['by']))
if '-v' in sys.argv:
    for u in unc:
        print("%s %s:%d  %s  ->  %s %s" % (u[0], u[1], u[2], u[3][:70], u[4][:70], u[5]))
