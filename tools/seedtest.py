#!/usr/bin/env python3
"""Apply a seeded defect to /repo, run the named checks, undo it straight afterwards.
usage: seedtest.py PATCH PROP [PROP...] [--tier quick|thorough]
Prints one line per check: exit code and number of VIOLATION lines. Never leaves /repo modified."""
import subprocess, sys, os, time
args = sys.argv[1:]
tier = "quick"
if "--tier" in args:
    i = args.index("--tier"); tier = args[i + 1]; del args[i:i + 2]
patch, props = args[0], args[1:]
V = os.path.dirname(os.path.dirname(os.path.abspath(__file__)))
def sh(cmd, **kw):
    return subprocess.run(cmd, shell=True, stdout=subprocess.PIPE, stderr=subprocess.STDOUT, text=True, **kw)
st = sh("git -C /repo status --porcelain --untracked-files=no")
if st.stdout.strip():
    print("refusing: /repo has uncommitted changes:\n" + st.stdout); sys.exit(2)
r = sh("git -C /repo apply --whitespace=nowarn %s" % patch)
if r.returncode != 0:
    print("patch does not apply:\n" + r.stdout); sys.exit(2)
results = {}
try:
    for p in props:
        t0 = time.time()
        r = sh("cd %s && ./check %s %s" % (V, p, tier))
        nv = sum(1 for l in r.stdout.splitlines() if l.startswith("VIOLATION "))
        first = next((l for l in r.stdout.splitlines() if l.strip().startswith("what:")), "")
        inc = next((l for l in r.stdout.splitlines() if l.startswith("INCONCLUSIVE")), "")
        results[p] = (r.returncode, nv)
        print("%-4s rc=%d violations=%d %.0fs %s %s" % (p, r.returncode, nv, time.time() - t0, first.strip()[:260], inc[:200]), flush=True)
finally:
    sh("git -C /repo checkout -- .")
    st = sh("git -C /repo status --porcelain --untracked-files=no")
    if st.stdout.strip():
        print("WARNING: /repo not clean after undo:\n" + st.stdout)
caught = [p for p, (rc, nv) in results.items() if rc == 1]
print("SUMMARY patch=%s caught_by=%s missed_by=%s" % (os.path.basename(os.path.dirname(patch)) or patch, ",".join(caught) or "-", ",".join(p for p in results if p not in caught) or "-"))
