#!/usr/bin/env python3
"""Run checks against a seeded defect WITHOUT touching /repo: a scratch git worktree of /repo gets the patch,
a scratch copy of /verif (harness path rewritten to the worktree) runs the checks. Everything is removed afterwards.
usage: seedtest_scratch.py PATCH PROP [PROP...] [--tier quick|thorough] [--keep]"""
import subprocess, sys, os, time, shutil, re
args = sys.argv[1:]
tier = "quick"
keep = False
if "--tier" in args:
    i = args.index("--tier"); tier = args[i + 1]; del args[i:i + 2]
if "--keep" in args:
    args.remove("--keep"); keep = True
patch, props = os.path.abspath(args[0]), args[1:]
name = os.path.basename(os.path.dirname(patch)) or "seed"
S = "/tmp/scratch/%s-%d" % (name, os.getpid())
def sh(cmd, **kw):
    return subprocess.run(cmd, shell=True, stdout=subprocess.PIPE, stderr=subprocess.STDOUT, text=True, **kw)
os.makedirs(S, exist_ok=True)
try:
    r = sh("git -C /repo worktree add --detach %s/repo HEAD -q && git -C %s/repo apply --whitespace=nowarn %s" % (S, S, patch))
    if r.returncode != 0:
        print("cannot prepare scratch repo:\n" + r.stdout); sys.exit(2)
    sh("rsync -a --exclude .build --exclude .work --exclude .git --exclude evidence --exclude replays --exclude seeded --exclude selftest /verif/ %s/verif/" % S)
    ct = open(S + "/verif/harness/Cargo.toml").read()
    ct = ct.replace('path = "/repo"', 'path = "%s/repo"' % S)
    open(S + "/verif/harness/Cargo.toml", "w").write(ct)
    results = {}
    for p in props:
        t0 = time.time()
        r = sh("cd %s/verif && ./check %s %s" % (S, p, tier))
        nv = sum(1 for l in r.stdout.splitlines() if l.startswith("VIOLATION "))
        first = next((l for l in r.stdout.splitlines() if l.strip().startswith("what:")), "")
        inc = next((l for l in r.stdout.splitlines() if l.startswith("INCONCLUSIVE")), "")
        results[p] = r.returncode
        print("%-4s rc=%d violations=%d %.0fs %s %s" % (p, r.returncode, nv, time.time() - t0, first.strip()[:260], inc[:200]), flush=True)
    caught = [p for p, rc in results.items() if rc == 1]
    print("SUMMARY patch=%s caught_by=%s missed_by=%s" % (name, ",".join(caught) or "-", ",".join(p for p in results if p not in caught) or "-"))
finally:
    if not keep:
        sh("git -C /repo worktree remove --force %s/repo" % S)
        shutil.rmtree(S, ignore_errors=True)
        sh("git -C /repo worktree prune")
