#!/usr/bin/env python3
"""Confirm a delivered seeded defect (tools/confirm_seed.sh) and keep it under /verif/seeded/<id>/.
usage: harvest_seed.py <id> <property> "<needs>" [demo command]"""
import sys, os, subprocess, json, shutil, glob
sid, prop, needs = sys.argv[1:4]
demo = sys.argv[4] if len(sys.argv) > 4 else "cargo test --offline --test seeded_demo"
src = "/tmp/seed/%s" % sid
r = subprocess.run(["/verif/tools/confirm_seed.sh", src, demo], stdout=subprocess.PIPE, stderr=subprocess.STDOUT, text=True)
print(r.stdout)
if r.returncode != 0:
    sys.exit(1)
dst = "/verif/seeded/%s" % sid
os.makedirs(dst, exist_ok=True)
shutil.copy(src + "/out/patch.diff", dst + "/patch.diff")
for f in glob.glob(src + "/out/*"):
    if os.path.basename(f) not in ("patch.diff",) and os.path.isfile(f):
        shutil.copy(f, dst)
meta = {"id": sid, "breaks_property": prop, "needs_to_manifest": needs, "origin": "independent sub-agent given only the property text and a scratch worktree",
        "confirmed_by": "tools/confirm_seed.sh in the scratch worktree: patch applies to HEAD, builds in 4 feature configurations, unedited suite passes, demo fails with the change and passes without",
        "demo_command": demo, "confirm_output": r.stdout.strip().splitlines(), "detected_by": None}
json.dump(meta, open(dst + "/meta.json", "w"), indent=1)
print("kept as", dst)
