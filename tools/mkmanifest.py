#!/usr/bin/env python3
"""Regenerate MANIFEST.json from the table below (single source of truth for the interface)."""
import json, os, subprocess
V = os.path.dirname(os.path.dirname(os.path.abspath(__file__)))

HOOK_COMMITS = ["28348bd"]

CHECKS = {
 "C01": dict(engine="eng_parse", ref="DESIGN.md §9 C01, §4, §5",
   technique="runtime monitoring: exact-rounding oracle observing parse_float on boundary-directed workloads in 5-8 feature configurations x 2 profiles; offline Python re-check of a sampled event log",
   text="Exploration with a deciding oracle: millions of f64 inputs constructed at rounding boundaries (every binade, ties, +-epsilon at depths up to 10^6 digits, cut-offs, range ends, 19-digit ties, seams, continued-fraction worst cases) are executed by the real code in every feature configuration and each result is judged by an independent exact decision procedure; hook events prove which internal tier decided each case and the run fails closed if a tier was never observed. Not a proof: 'held on the executions counted in the evidence'.",
   note="Trusts the harness oracle (cross-checked against Python integers on a sample of every run, Rust std on disagreement, seeded defects) and the x86_64/64-bit-limb build."),
 "C02": dict(engine="eng_parse", ref="DESIGN.md §9 C02",
   technique="runtime monitoring: exact-rounding oracle on f32 boundary workloads incl. double-rounding probes, all configurations, offline Python re-check",
   text="As C01 for f32, plus probes whose f64-then-f32 rounding differs from direct rounding (counted; the run fails closed if none was generated).",
   note="Same trusted base as C01."),
 "C03": dict(engine="eng_parse", ref="DESIGN.md §9 C03",
   technique="runtime monitoring: round-trip monitor (bit equality) over enumerated f32 patterns and structured/random f64 patterns, three renderings",
   text="Every finite non-negative f32 (strided in quick, complete in thorough) and every f64 binade x structured fractions plus random patterns is rendered shortest / 9|17 digits / exact and parsed back; monitor is bit equality with the original. Exhaustive only for f32 in thorough (flag set by the run when it completed).",
   note="Renderers (Rust std formatting, harness big integers) are trusted; a mismatch counts only when the exact oracle confirms the rendering."),
 "C04": dict(engine="eng_parse", ref="DESIGN.md §9 C04",
   technique="runtime monitoring: panic/abort monitor (catch_unwind + process status) on hostile valid inputs in optimised and debug-assertion+overflow-check builds of every configuration",
   text="Exploration: deterministic grid of lengths 0..10^6 x digit patterns x placements x exponents incl. i32::MIN/MAX, capacity maximisers and boundary generators, run in both profiles; any panic, abort, signal or NaN/negative result is a violation. High-water marks of big-integer limbs and subnormal shifts are reported as margins.",
   note="'Returns' is observed as bounded progress (watchdog => inconclusive)."),
 "C05": dict(engine="eng_parse", ref="DESIGN.md §9 C05",
   technique="runtime monitoring: differential monitor - identical seeded stream through every configuration's binary, chunk hashes of result bits compared, differing chunk replayed to name the input",
   text="Exploration, differential: 5 (quick) / 8 (thorough) configurations incl. no_std ones parse the same millions of boundary-directed inputs; any bit difference is a violation. Hook counters show that Lemire vs Bellerophon and stack vs heap paths really ran.",
   note="No value oracle here (C01/C02 provide it)."),
 "C06": dict(engine="eng_parse", ref="DESIGN.md §9 C06",
   technique="runtime monitoring: exact-rounding oracle on inputs with 20..10^6 significant digits whose deciding digit sits at every cut-off (19/20, 114/115, 769/770, chunk ends)",
   text="Exploration with deciding oracle restricted to >=20 significant digits: tie + zeros, tie + nonzero digit k places out, tie - 1 with tail of nines, truncations, in all layouts and configurations; sticky-digit and w/w+1-disagreement events must be observed.",
   note="Same trusted base as C01; the oracle compares digit strings so every digit is used."),
 "C07": dict(engine="eng_parse", ref="DESIGN.md §9 C07",
   technique="runtime monitoring: exact-rounding oracle on range-end workloads (thresholds, subnormals, zero significands, exponents to i32::MIN/MAX, compensated 10^6-digit strings)",
   text="Exploration with deciding oracle on the ends of the range for f32 and f64 in all configurations; coverage classes (inf, zero, subnormal, compensated, extreme exponent) are required.",
   note="Same trusted base as C01."),
 "C09": dict(engine="eng_parse", ref="DESIGN.md §9 C09",
   technique="runtime monitoring: order monitor - clusters of nearby inputs sorted by exact decimal comparison, parsed in order, results must be non-decreasing (equal values equal bits)",
   text="Exploration: tens of millions of adjacent pairs around every algorithm switch-over, counted by which tiers decided the two members (from hooks); violation = order inversion.",
   note="Order of inputs decided by exact digit-string comparison in the harness."),
 "C10": dict(engine="eng_parse", ref="DESIGN.md §9 C10",
   technique="runtime monitoring: metamorphic monitor - all spellings (splits, digits moved to the exponent, leading fraction zeros, 0..40 trailing zeros) of one value must return identical bits",
   text="Exploration: for each base value every re-splitting is executed in all configurations; distinct internal (mantissa, exponent, truncated) routes per value are counted from hooks to show the spellings really took different paths; 1/8 of the classes are anchored to the exact oracle.",
   note="Metamorphic; absolute correctness comes from the anchor sample and C01/C02."),
}

NOT_YET = {
 "C08": "check under construction in this session (Miri/ASan/valgrind engine eng_mem); will be claimed when it exists",
 "C11": "check under construction (eng_moderate)",
 "C12": "check under construction (eng_bigint)",
 "C13": "check under construction (eng_bigint)",
 "C14": "check under construction (eng_consts)",
 "C15": "check under construction (allocation monitor)",
 "C16": "check under construction (purity / concurrency engine)",
 "C17": "check under construction (eng_float)",
 "C18": "check under construction (eng_float)",
 "C19": "check under construction (eng_front)",
}

ENGINES = {
 "eng_parse": ("harness/src/bin/eng_parse.rs", "public-API engine: generators + exact oracle + hook sink + panic monitor; one process per shard"),
}

def main():
    checks = []
    for pid, c in sorted(CHECKS.items()):
        checks.append({
            "property_id": pid,
            "quick_cmd": "./check %s quick" % pid,
            "thorough_cmd": "./check %s thorough" % pid,
            "evidence_file": "/verif/evidence/%s.json" % pid,
            "replay_cmd_template": "./check %s --replay {path}" % pid,
            "engine": c["engine"],
            "level_claimed": {"category": c.get("category", "exploration"), "text": c["text"], "design_ref": c["ref"]},
            "level_note": c["note"],
            "technique": c["technique"],
        })
    engines = []
    for name, (path, kind) in sorted(ENGINES.items()):
        engines.append({"name": name, "path": path, "serves_properties": sorted(p for p, c in CHECKS.items() if c["engine"] == name), "kind_free_text": kind})
    man = {
        "version": 1,
        "setup_cmd": "./check setup",
        "hooks": {
            "guard": "--cfg minimal_lexical_verif",
            "enable": "RUSTFLAGS='--cfg minimal_lexical_verif' (set by ./check for every harness build; the harness crate depends on /repo by path, so the current working tree is rebuilt)",
            "baseline_off_cmd": "cd /repo && cargo test --workspace --no-fail-fast --offline",
            "source_commits": HOOK_COMMITS,
            "add_only": True,
        },
        "engines": engines,
        "checks": checks,
        "notes": "Technique family: runtime monitoring and sanitizers. Exit codes of ./check: 0 held on everything observed, 1 violation (VIOLATION line + replay file), 3 inconclusive (never reported as violation). VERIF_SEED selects the workload; VERIF_BUDGET_SCALE scales time budgets. Known findings: /verif/known_findings.txt.",
        "not_applicable": [{"property_id": p, "reason": r} for p, r in sorted(NOT_YET.items()) if p not in CHECKS],
    }
    with open(os.path.join(V, "MANIFEST.json"), "w") as f:
        json.dump(man, f, indent=1)
        f.write("\n")
    print("MANIFEST.json: %d checks, %d not claimed" % (len(checks), len(man["not_applicable"])))

if __name__ == "__main__":
    main()
