#!/usr/bin/env python3
"""Regenerate MANIFEST.json from the table below (single source of truth for the interface)."""
import json, os, subprocess
V = os.path.dirname(os.path.dirname(os.path.abspath(__file__)))

HOOK_COMMITS = ["28348bd"]

CHECKS = {
 "C01": dict(engine="eng_parse", ref="DESIGN.md §9 C01, §4, §5",
   technique="runtime monitoring: exact-rounding oracle observing parse_float on boundary-directed workloads in 5-8 feature configurations x 2 profiles; offline Python re-check of a sampled event log; platform differential of the same inputs executed by Miri for a 32-bit target (32-bit limbs)",
   text="Exploration with a deciding oracle: millions of f64 inputs constructed at rounding boundaries (every binade, ties, +-epsilon at depths up to 10^6 digits, cut-offs, range ends and near-halfway patterns beyond them, 19-digit ties, seams incl. the disguised fast path's overflow limits, continued-fraction worst cases for long and short significands, slow-path operands straddling a limb boundary) are executed by the real code in every feature configuration and each result is judged by an independent exact decision procedure; hook events prove which internal tier decided each case and the run fails closed if a tier was never observed. Not a proof: 'held on the executions counted in the evidence'.",
   note="Trusts the harness oracle (cross-checked against Python integers on a sample of every run, Rust std on disagreement, seeded defects) and the x86_64/64-bit-limb build."),
 "C02": dict(engine="eng_parse", ref="DESIGN.md §9 C02",
   technique="runtime monitoring: exact-rounding oracle on f32 boundary workloads incl. double-rounding probes and short-significand worst cases, all configurations; bounded-exhaustive sweep of every significand below 2^32 at exponents -22..22 against an integer oracle (strided in quick, complete in thorough); offline Python re-check",
   text="As C01 for f32, plus probes whose f64-then-f32 rounding differs from direct rounding (counted; the run fails closed if none was generated), short-significand continued-fraction worst cases (where a shortcut through a wider type double-rounds), and a sweep of every decimal w x 10^q with w < 2^32, |q| <= 22 (every 2039th w in quick = 6x10^8 cases; all 1.9x10^11 in thorough, flag set by the run when it completed) judged by exact u128 rounding.",
   note="Same trusted base as C01."),
 "C03": dict(engine="eng_parse", ref="DESIGN.md §9 C03",
   technique="runtime monitoring: round-trip monitor (bit equality) over enumerated f32 patterns and structured/random f64 patterns, three renderings",
   text="Every finite non-negative f32 (strided in quick, complete in thorough) and every f64 binade x structured fractions plus random patterns is rendered shortest / 9|17 digits / exact, laid out scientific / integer-only / fraction-only / positional (exponent 0, as `{}` prints; powers of two and their neighbours in all four layouts) and parsed back; monitor is bit equality with the original. Exhaustive only for f32 in thorough (flag set by the run when it completed).",
   note="Renderers (Rust std formatting, harness big integers) are trusted; a mismatch counts only when the exact oracle confirms the rendering."),
 "C04": dict(engine="eng_parse", ref="DESIGN.md §9 C04",
   technique="runtime monitoring: panic/abort monitor (catch_unwind + process status) on hostile valid inputs in optimised and debug-assertion+overflow-check builds of every configuration",
   text="Exploration: deterministic grid of lengths 0..10^6 x digit patterns x placements x exponents incl. i32::MIN/MAX, capacity maximisers, boundary generators and near-halfway bit patterns far beyond either end of the range, run in both profiles; any panic, abort, signal or NaN/negative result is a violation. High-water marks of big-integer limbs and subnormal shifts are reported as margins.",
   note="'Returns' is observed as bounded progress (watchdog => inconclusive)."),
 "C05": dict(engine="eng_parse", ref="DESIGN.md §9 C05",
   technique="runtime monitoring: differential monitor - identical seeded stream through every configuration's binary, chunk hashes of result bits compared, differing chunk replayed to name the input",
   text="Exploration, differential: 5 (quick) / 8 (thorough) configurations incl. no_std ones parse the same millions of boundary-directed inputs; any bit difference is a violation. Hook counters show that Lemire vs Bellerophon and stack vs heap paths really ran.",
   note="No value oracle here (C01/C02 provide it)."),
 "C06": dict(engine="eng_parse", ref="DESIGN.md §9 C06",
   technique="runtime monitoring: exact-rounding oracle on inputs with 20..10^6 significant digits whose deciding digit sits at every cut-off (19/20, 114/115, 769/770, chunk ends)",
   text="Exploration with deciding oracle restricted to >=20 significant digits: tie + zeros, tie + nonzero digit k places out, tie - 1 with tail of nines, truncations, in all layouts and configurations; sticky-digit and w/w+1-disagreement events must be observed.",
   note="Same trusted base as C01; the oracle compares digit strings so every digit is used."),
 "C07": dict(engine="eng_parse", ref="DESIGN.md §9 C07",
   technique="runtime monitoring: exact-rounding oracle on range-end workloads (thresholds, subnormals, zero significands, exponents to i32::MIN/MAX, compensated 10^6-digit strings, near-halfway bit patterns up to 2^420 beyond either end of the range, continued-fraction worst cases of the end decades)",
   text="Exploration with deciding oracle on the ends of the range for f32 and f64 in all configurations; coverage classes (inf, zero, subnormal, compensated, extreme exponent) are required.",
   note="Same trusted base as C01."),
 "C09": dict(engine="eng_parse", ref="DESIGN.md §9 C09",
   technique="runtime monitoring: order monitor - clusters of nearby inputs sorted by exact decimal comparison, parsed in order, results must be non-decreasing (equal values equal bits)",
   text="Exploration: tens of millions of adjacent pairs around every algorithm switch-over, counted by which tiers decided the two members (from hooks); violation = order inversion.",
   note="Order of inputs decided by exact digit-string comparison in the harness."),
 "C10": dict(engine="eng_parse", ref="DESIGN.md §9 C10",
   technique="runtime monitoring: metamorphic monitor - all spellings (splits, digits moved to the exponent up to 10^5 places, up to 10^5 leading fraction zeros, positional spelling, 0..40 and occasionally thousands of trailing zeros) of one value (up to 2x10^5 digits) must return identical bits",
   text="Exploration: for each base value every re-splitting is executed in all configurations; distinct internal (mantissa, exponent, truncated) routes per value are counted from hooks to show the spellings really took different paths; 1/8 of the classes are anchored to the exact oracle.",
   note="Metamorphic; absolute correctness comes from the anchor sample and C01/C02."),
 "C08": dict(engine="eng_mem", ref="DESIGN.md §9 C08, §6",
   technique="sanitizers / UB interpreter: Miri (Stacked Borrows and Tree Borrows, optimised and debug-assertion profiles; also for an i686 target = 32-bit limbs), AddressSanitizer on a generated workload and on a coverage-guided libFuzzer session, valgrind memcheck, all watching parse_float on arbitrary bytes; differential against the native run",
   text="Exploration under memory monitors: arbitrary byte strings (every byte value, lengths around every cut-off, any exponent) plus valid inputs aimed at each unchecked-index site are executed under Miri in both aliasing models (and on a 32-bit target) and under ASan (valgrind in thorough), and a coverage-guided libFuzzer+ASan session (25 s x 16 workers in quick, ~17 min in thorough; clean panics caught inside the target) searches for byte / length / exponent coincidences no fixed generator aims at; any Undefined Behaviour / sanitizer report with a frame in the crate is a violation, a clean panic is allowed and counted. Evidence lists executions per tool and (thorough) which lines with unsafe operations the driver executed.",
   note="Decided for the paths reached, under each tool's model; Miri executes 10^3-10^5 cases, ASan/valgrind 10^6+ but are blind to intra-object overflow."),
 "C11": dict(engine="eng_moderate", ref="DESIGN.md §9 C11",
   technique="runtime monitoring: exact interval oracle on direct calls of the extended-precision stage (Eisel-Lemire / Bellerophon) over number-theoretic worst cases, boundary prefixes, ties and table/early-out limits",
   text="Exploration with deciding oracle on the stage itself: (w, q, truncated) triples incl. the complete continued-fraction corpus (distance to a rounding boundary down to 2^-120), every significand below 384 (quick) / 16384 (thorough) at every exponent (bounded-exhaustive), the constructed lo==MAX cases; every definite answer checked against w*10^q and, when truncated, the whole interval [w, w+1)*10^q; branch coverage of the stage (second product, tie-to-even, subnormal, w/w+1 disagreement, Bellerophon error check) comes from hooks and is required.",
   note="Same oracle as C01; truncated is combined only with 1 <= w <= u64::MAX-1."),
 "C12": dict(engine="eng_bigint", ref="DESIGN.md §9 C12",
   technique="runtime monitoring: reference-model monitor (independent big naturals) after every big-integer operation on both storage back-ends, incl. success/failure against the capacity; Miri slice compared with the native run",
   text="Exploration: millions of single operations with explicit operands sized to land at 60..64 limbs, all powers 0..1720, all shift counts, sticky bit at every depth, every pair of 1..3-limb vectors over the boundary alphabet {0,1,2,MAX-1,MAX,2^63} (bounded-exhaustive); each result (value, length, Some/None/panic) compared with schoolbook reference arithmetic, and len <= capacity asserted after every operation; operands are built by try_from, by Clone (tight heap allocation) or by new + extend; shift counts also far beyond the capacity (2^8, 2^16, 2^32 + r: must be refused); two-island operands (long interior runs of zero limbs); the stack below every fourth operation is poisoned so that never-written limbs show natively; a lean slice runs under Miri SB/TB.",
   note="Reference naturals are the harness' own (also used by the value oracle, cross-checked against Python)."),
 "C13": dict(engine="eng_bigint", ref="DESIGN.md §9 C13",
   technique="runtime monitoring: executable sequence model checked after every operation of random operation histories on StackVec / HeapVec, natively and under Miri (Stacked + Tree Borrows)",
   text="Exploration over histories: many short histories (20..400 operations) that fill to capacity, hover and drain, plus every sequence of 4 (quick) / 5 (thorough) capacity-relevant operations from 8 start states (small-scope exhaustive); length, contents, return values, failed-operation-changes-nothing (incl. absurd resize / extend requests that look small after a narrowing cast), numeric ordering are compared with a plain-sequence model after every step, histories carry on with clones, and a second vector exercises clone_from (both directions), swap and every comparison operator; the same histories run under Miri where reads of never-written slots or out-of-range writes are Undefined Behaviour reports.",
   note="Numeric ordering judged on normalized vectors; heap histories stay <= 62 limbs in debug-assertion builds."),
 "C14": dict(engine="eng_consts", ref="DESIGN.md §9 C14",
   technique="runtime monitoring, complete enumeration: the running program of each configuration dumps every power constant it sees (table, u64::pow, std powf, bundled libm); an offline Python checker recomputes each definition",
   text="Complete enumeration of a finite set (exhaustive: true): 651 128-bit Eisel-Lemire entries and the exponent map for every q, all small integer and float powers as returned at run time, 5^135, all Bellerophon entries with exponents, in 8 configurations.",
   note="Float powers are decided for this platform's libm and the bundled libm as compiled here."),
 "C15": dict(engine="eng_pure", ref="DESIGN.md §9 C15",
   technique="runtime monitoring: counting #[global_allocator] armed exactly around each parse_float call; sensitivity control in alloc configurations",
   text="Exploration: tens of millions of monitored calls covering every internal path class (required from hooks) in default, compact and no_std configurations, both profiles; any allocator event inside a call is a violation; alloc builds must show events on every big-integer call or the run is inconclusive.",
   note="All Rust heap allocation goes through the global allocator."),
 "C16": dict(engine="eng_pure", ref="DESIGN.md §9 C16",
   technique="runtime monitoring: differential monitor over iterator shapes / buffer addresses / stack poisoning / call history / concurrent callers; Miri data-race and uninitialised-read detection on sampled schedules; ThreadSanitizer in thorough",
   text="Exploration: each input is parsed through 14 fused iterator shapes (chains of exact and inexact pieces, filter, VecDeque, rev, skip/take/step_by, flat_map, peekable, hand-written non-contiguous, items sharing addresses through a static digit table or repeat(&ZERO)), from differently aligned buffers, after stack poisoning and other parses, and from 3..64 threads; results and hook traces must equal the plain sequential slice-iterator run; Miri runs the same engine with several scheduler seeds, TSan in thorough.",
   note="Schedules are sampled, not enumerated."),
 "C17": dict(engine="eng_float", ref="DESIGN.md §9 C17",
   technique="runtime monitoring, complete enumeration for f32: all 2^32 bit patterns (and structured + random f64 patterns) checked against IEEE-754 field extraction and an exact hardware recomputation of mantissa x 2^exponent",
   text="Exhaustive for f32 (flag set by the run when all shards completed), sampled for f64 (every biased exponent x every single fraction bit, run of ones, pair of bits and complement, plus random): is_denormal, exponent, mantissa, to/from bits, b/bh, extended_to_float against an oracle written from the standard; also in a build with -C target-cpu=native (cfg(target_feature) variants).",
   note="x86_64 SSE2 semantics."),
 "C18": dict(engine="eng_float", ref="DESIGN.md §9 C18",
   technique="runtime monitoring: independent exact integer rounding as oracle for round()/round_nearest_tie_even/round_down + extended_to_float over every exponent and all guard-bit classes; mask helpers for all widths",
   text="Exploration with deciding oracle: every biased exponent in the stated range x significand pattern classes x three variants, the exact halfway pattern for every subnormal shift, random pairs; the integer reference is cross-checked by the decimal oracle on a sample.",
   note="Domain as the property states (shifts <= 64; truncating variant judged below 2^(emax+1))."),
 "C19": dict(engine="eng_front", ref="DESIGN.md §9 C19",
   technique="runtime monitoring: reference scanner (from the grammar) + exact rounding oracle observing all seven shipped front-end copies on grammar-directed, mutated and random byte strings; panic monitor",
   text="Exploration: the copies are compiled from the working tree; (value bits incl. sign, remaining suffix) of each copy must equal the reference on millions of strings incl. absurd exponents, zero runs of up to 3x10^6 bytes cancelled by equally large exponents, missing parts, special literals in any case and arbitrary bytes.",
   note="NaN judged as 'is NaN'; copies that cannot be located are reported as not examined (inconclusive), never as passing."),
}

NOT_YET = {}

ENGINES = {
 "eng_parse": ("harness/src/bin/eng_parse.rs", "public-API engine: generators + exact oracle + hook sink + panic monitor; one process per shard"),
 "eng_moderate": ("harness/src/bin/eng_moderate.rs", "direct calls of the extended-precision stage with the interval oracle"),
 "eng_bigint": ("harness/src/bin/eng_bigint.rs", "single big-integer operations vs reference naturals; vector operation histories vs a sequence model; lean mode for Miri"),
 "eng_consts": ("harness/src/bin/eng_consts.rs", "dumps every power constant the running configuration sees; judged by pyoracle/consts.py"),
 "eng_float": ("harness/src/bin/eng_float.rs", "Float helpers over all f32 patterns; rounding primitive vs exact integer rounding"),
 "eng_front": ("harness/src/bin/eng_front.rs", "the seven shipped front-end copies (prepared by harness/build.rs) vs a reference scanner + oracle"),
 "eng_mem": ("harness/src/bin/eng_mem.rs", "oracle-free arbitrary-bytes driver for Miri / ASan / valgrind"),
 "eng_pure": ("harness/src/bin/eng_pure.rs", "allocation monitor and purity/concurrency differential; runs natively, under Miri and TSan"),
}

def main():
    checks = []
    for pid, c in sorted(CHECKS.items()):
        checks.append({
            "property_id": pid,
            "quick_cmd": "./check %s quick" % pid,
            "thorough_cmd": "./check %s thorough" % pid,
            "evidence_file": "/verif/evidence/%s.json" % pid,
            "replay_cmd_template": "./check %s --replay {path}" % pid,
            "engine": c["engine"],
            "level_claimed": {"category": c.get("category", "exploration"), "text": c["text"], "design_ref": c["ref"]},
            "level_note": c["note"],
            "technique": c["technique"],
        })
    engines = []
    for name, (path, kind) in sorted(ENGINES.items()):
        engines.append({"name": name, "path": path, "serves_properties": sorted(p for p, c in CHECKS.items() if c["engine"] == name), "kind_free_text": kind})
    man = {
        "version": 1,
        "setup_cmd": "./check setup",
        "hooks": {
            "guard": "--cfg minimal_lexical_verif",
            "enable": "RUSTFLAGS='--cfg minimal_lexical_verif' (set by ./check for every harness build; the harness crate depends on /repo by path, so the current working tree is rebuilt)",
            "baseline_off_cmd": "cd /repo && cargo test --workspace --no-fail-fast --offline",
            "source_commits": HOOK_COMMITS,
            "add_only": True,
        },
        "engines": engines,
        "checks": checks,
        "notes": "Technique family: runtime monitoring and sanitizers. Exit codes of ./check: 0 held on everything observed, 1 violation (VIOLATION line + replay file), 3 inconclusive (never reported as violation). VERIF_SEED selects the workload; VERIF_BUDGET_SCALE scales time budgets. Known findings: /verif/known_findings.txt.",
        "not_applicable": [{"property_id": p, "reason": r} for p, r in sorted(NOT_YET.items()) if p not in CHECKS],
    }
    with open(os.path.join(V, "MANIFEST.json"), "w") as f:
        json.dump(man, f, indent=1)
        f.write("\n")
    print("MANIFEST.json: %d checks, %d not claimed" % (len(checks), len(man["not_applicable"])))

if __name__ == "__main__":
    main()
