#!/usr/bin/env python3
"""Fold SUMMARY lines of seed-test logs into seeded/<id>/meta.json and regenerate the seed table in DESIGN.md
(between the markers <!-- SEEDTABLE:BEGIN --> and <!-- SEEDTABLE:END -->). usage: seed_results.py LOG..."""
import re, json, glob, os, sys
res = {}
for f in sys.argv[1:]:
    for l in open(f):
        m = re.match(r"SUMMARY patch=(\S+) caught_by=(\S+) missed_by=(\S+)", l)
        if m:
            n, c, ms = m.groups()
            r = res.setdefault(n, {"caught": set(), "missed": set()})
            if c != '-': r["caught"] |= set(c.split(','))
            if ms != '-': r["missed"] |= set(ms.split(','))
for n, r in res.items():
    mp = '/verif/seeded/%s/meta.json' % n
    if not os.path.exists(mp):
        continue
    meta = json.load(open(mp))
    c = set(meta.get("detected_by") or []) | r["caught"]
    m = (set(meta.get("not_detected_by_other_checks_tried") or []) | r["missed"]) - c
    meta["detected_by"] = sorted(c)
    meta["not_detected_by_other_checks_tried"] = sorted(m)
    meta.setdefault("checks_run", "./check <ID> quick with the patch applied to the crate (tools/seedtest.py / tools/seedtest_scratch.py)")
    json.dump(meta, open(mp, 'w'), indent=1)
rows = []
for d in sorted(glob.glob('/verif/seeded/*/meta.json')):
    m = json.load(open(d))
    rows.append("| `%s` | %s | %s | %s |" % (m["id"], m["breaks_property"], m["needs_to_manifest"].replace("|", "/"),
                ", ".join(m.get("detected_by") or (["none - outside the property as read here, see the text below"] if m.get("scope_note") else (["**none (missed)**"] if m.get("miss_note") else ["(not run yet)"]))) + (" (not: %s)" % ", ".join(m["not_detected_by_other_checks_tried"]) if m.get("not_detected_by_other_checks_tried") else "")))
s = open('/verif/DESIGN.md').read()
a, b = "<!-- SEEDTABLE:BEGIN -->", "<!-- SEEDTABLE:END -->"
if a in s:
    i, j = s.index(a) + len(a), s.index(b)
    s = s[:i] + "\n| seed | property | what it needs in order to manifest | quick checks that report a VIOLATION |\n|---|---|---|---|\n" + "\n".join(rows) + "\n" + s[j:]
    open('/verif/DESIGN.md', 'w').write(s)
print(len(rows), "seeds;", sum(1 for d in glob.glob('/verif/seeded/*/meta.json') if json.load(open(d)).get("detected_by")), "with detections recorded")
