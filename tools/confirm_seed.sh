#!/bin/bash
# Confirm a delivered seeded defect in its scratch worktree:
#   patch applies to clean HEAD; builds in 4 configurations; unedited suite passes; demo fails with and passes without.
# usage: confirm_seed.sh /tmp/seed/<id>  ["demo command" (default: cargo test --offline --test seeded_demo)]
set -u
D=$1; WT=$D/wt; OUT=$D/out
DEMO=${2:-"cargo test --offline --test seeded_demo"}
export CARGO_NET_OFFLINE=true
cd $WT || exit 2
git checkout -q -- . ; git clean -fdq -e target
git apply --whitespace=nowarn $OUT/patch.diff || { echo "CONFIRM: patch does not apply"; exit 1; }
echo "files: $(git diff --stat | tail -1)"
ok=1
for f in "" "--features compact" "--features alloc" "--no-default-features --features compact"; do
  cargo build --offline -q $f 2>/dev/null || { echo "CONFIRM: build fails with '$f'"; ok=0; }
done
r=$(cargo test --offline --workspace --no-fail-fast 2>&1 | grep -E "^test result" | awk '{p+=$4; f+=$6} END {print p" passed "f" failed"}')
echo "suite with change: $r"
case "$r" in *" 0 failed") ;; *) ok=0;; esac
for f in $OUT/*.rs; do [ -f "$f" ] && case "$(basename $f)" in seeded_demo*.rs) cp $f tests/;; esac; done
[ -d $OUT/examples ] && cp $OUT/examples/* examples/ 2>/dev/null
with=$( (eval "$DEMO") 2>&1 | grep -E "^test result|panicked|FAILED|error" | head -3 | tr '\n' ' ')
(eval "$DEMO") >/dev/null 2>&1; rc_with=$?
git apply -R --whitespace=nowarn $OUT/patch.diff
(eval "$DEMO") >/dev/null 2>&1; rc_without=$?
echo "demo with change rc=$rc_with ($with) ; without rc=$rc_without"
git checkout -q -- . ; git clean -fdq -e target
if [ $ok = 1 ] && [ $rc_with != 0 ] && [ $rc_without = 0 ]; then echo "CONFIRM: OK"; exit 0; else echo "CONFIRM: NOT CONFIRMED"; exit 1; fi
