#!/usr/bin/env python3
"""Run the relevant quick checks against every surviving mutant (tools/mutate.py) in a persistent scratch copy
(warm build cache), never touching /repo. Writes <mutdir>/<id>/result.json. usage: mutcheck.py MUTDIR [MAX]"""
import os, sys, json, subprocess, time, glob, shutil
MUT = sys.argv[1]
MAX = int(sys.argv[2]) if len(sys.argv) > 2 else 10 ** 9
S = "/tmp/mutcheck"
CHECKS = {
    "src/parse.rs": ["C01", "C07", "C10"], "src/number.rs": ["C01", "C09", "C02"], "src/lemire.rs": ["C11", "C01", "C02"],
    "src/bellerophon.rs": ["C11", "C01", "C05"], "src/slow.rs": ["C01", "C06", "C02"], "src/rounding.rs": ["C18", "C01"],
    "src/bigint.rs": ["C12", "C01"], "src/stackvec.rs": ["C13", "C12"], "src/heapvec.rs": ["C13", "C12"],
    "src/num.rs": ["C17", "C02", "C01"], "src/mask.rs": ["C18", "C01"], "src/extended_float.rs": ["C17", "C01"],
}
def sh(cmd, **kw):
    return subprocess.run(cmd, shell=True, stdout=subprocess.PIPE, stderr=subprocess.STDOUT, text=True, **kw)
os.makedirs(S, exist_ok=True)
if not os.path.exists(S + "/repo"):
    sh("git -C /repo worktree add --detach %s/repo HEAD -q" % S)
sh("git -C %s/repo checkout -q -- ." % S)
sh("rsync -a --delete --exclude .build --exclude .work --exclude .git --exclude evidence --exclude replays --exclude seeded --exclude selftest /verif/ %s/verif/" % S)
ct = open(S + "/verif/harness/Cargo.toml").read().replace('path = "/repo"', 'path = "%s/repo"' % S)
open(S + "/verif/harness/Cargo.toml", "w").write(ct)
n = 0
for d in sorted(glob.glob(os.path.join(MUT, "[md]*"))):
    if os.path.exists(d + "/result.json") or not os.path.exists(d + "/patch.diff"):
        continue
    if n >= MAX:
        break
    n += 1
    info = json.load(open(d + "/info.json"))
    r = sh("git -C %s/repo apply --whitespace=nowarn %s/patch.diff" % (S, d))
    if r.returncode != 0:
        json.dump({"error": "patch does not apply"}, open(d + "/result.json", "w"))
        continue
    res = {}
    try:
        for p in CHECKS.get(info["file"], ["C01"]):
            t0 = time.time()
            r = sh("cd %s/verif && ./check %s quick" % (S, p))
            first = next((l.strip() for l in r.stdout.splitlines() if l.strip().startswith("what:")), "")
            inc = next((l for l in r.stdout.splitlines() if l.startswith("INCONCLUSIVE")), "")
            res[p] = {"rc": r.returncode, "first": first[:300], "inconclusive": inc[:300], "s": round(time.time() - t0)}
            if r.returncode == 1:
                break  # caught: no need to run the remaining checks
    finally:
        sh("git -C %s/repo checkout -q -- ." % S)
    caught = [p for p, v in res.items() if v["rc"] == 1]
    json.dump({"caught_by": caught, "runs": res}, open(d + "/result.json", "w"), indent=1)
    print("%s %s:%d [%s -> %s] caught_by=%s" % (info["id"], info["file"], info["line"], info["old"].strip()[:50], info["new"].strip()[:50], ",".join(caught) or "NONE " + ",".join("%s:rc%d" % (p, v["rc"]) for p, v in res.items())), flush=True)
