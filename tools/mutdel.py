import sys, os, re, json, random
sys.path.insert(0, '/verif/tools')
import mutate
def points():
    out = []
    for f in mutate.FILES:
        lines = open(os.path.join(mutate.REPO, f)).read().split("\n")
        in_hook = False
        for ln, line in enumerate(lines):
            t = line.strip()
            if "cfg(minimal_lexical_verif)" in line:
                in_hook = True
                continue
            if in_hook:
                if t.endswith(";"):
                    in_hook = False
                continue
            if not t.endswith(";") or t.startswith("//") or t.startswith("let ") or t.startswith("use ") or t.startswith("pub ") or t.startswith("const ") or t.startswith("return") or t.startswith("debug_assert") or "verif" in t or t.startswith("type ") or t.startswith("static ") or t.startswith("#"):
                continue
            # statements: assignments / compound assignments / calls / macro calls
            if re.match(r"^[\w\.\*\$\[\]\(\)&: ]+\s*(=|\+=|-=|\|=|&=|<<=|>>=|\*=|/=)\s", t) or re.match(r"^[\w\.\$:!<>]+\(.*\)\??(\.unwrap\(\))?;$", t) or re.match(r"^\$?\w[\w\.]*\.(\w+)\(.*\)\??(\.unwrap\(\))?;$", t):
                ind = line[:len(line) - len(line.lstrip())]
                out.append({"file": f, "line": ln + 1, "old": line, "new": ind + "// (statement deleted)", "rule": "delete-statement", "rep": ""})
    for i, p in enumerate(out):
        p["id"] = "d%04d" % i
    return out
mutate.points = points
if __name__ == "__main__":
    ps = points()
    by = {}
    for p in ps: by[p["file"]] = by.get(p["file"], 0) + 1
    print(len(ps), by)
    if len(sys.argv) > 1 and sys.argv[1] == "run":
        sys.argv = ["mutate.py", "survivors", "/verif/selftest/mutdel", "4"]
        mutate.main()
