//! Prepares the shipped string front-end copies of the repository for `eng_front` (C19):
//! they are read from the repository's *current working tree* at build time and written to
//! OUT_DIR in a form that can be `include!`d into a module. A copy whose parse region cannot
//! be located is replaced by a stub that reports "not examined".

use std::fs;
use std::path::{Path, PathBuf};

fn repo_dir() -> PathBuf {
    // the path of the minimal-lexical dependency in our own Cargo.toml
    let manifest = fs::read_to_string(Path::new(&std::env::var("CARGO_MANIFEST_DIR").unwrap()).join("Cargo.toml")).unwrap();
    for line in manifest.lines() {
        if line.trim_start().starts_with("minimal-lexical") {
            if let Some(i) = line.find("path = \"") {
                let rest = &line[i + 8..];
                if let Some(j) = rest.find('"') {
                    return PathBuf::from(&rest[..j]);
                }
            }
        }
    }
    PathBuf::from("/repo")
}

fn stub(name: &str) -> String {
    format!("// {}: parse region not found\npub const AVAILABLE: bool = false;\npub const SPECIALS: bool = false;\npub fn entry<F: minimal_lexical::Float>(_b: &[u8]) -> (F, &[u8]) {{ unreachable!() }}\n", name)
}

/// Cut `fn parse_sign` ..= end of `fn parse_float` (first line that is exactly "}" after its header).
fn cut_region(src: &str) -> Option<String> {
    let lines: Vec<&str> = src.lines().collect();
    let start = lines.iter().position(|l| l.starts_with("fn parse_sign") || l.starts_with("pub fn parse_sign"))?;
    let pf = lines.iter().position(|l| l.starts_with("fn parse_float") || l.starts_with("pub fn parse_float"))?;
    if pf < start {
        return None;
    }
    let end = (pf..lines.len()).find(|&i| lines[i] == "}")?;
    Some(lines[start..=end].join("\n"))
}

fn wrap(body: &str) -> String {
    let specials = body.contains("case_insensitive_starts_with");
    format!(
        "pub const AVAILABLE: bool = true;\npub const SPECIALS: bool = {};\n{}\npub fn entry<F: minimal_lexical::Float>(b: &[u8]) -> (F, &[u8]) {{ parse_float::<F>(b) }}\n",
        specials, body
    )
}

fn main() {
    let repo = repo_dir();
    let out = PathBuf::from(std::env::var("OUT_DIR").unwrap());
    println!("cargo:rerun-if-changed=build.rs");
    let subjects: [(&str, &str, bool); 7] = [
        ("front_example", "examples/simple.rs", true),
        ("front_fuzz", "fuzz/fuzz_targets/parse.rs", true),
        ("front_itest", "tests/integration_tests.rs", true),
        ("front_golang", "etc/correctness/test-parse-golang/main.rs", true),
        ("front_unittests", "etc/correctness/test-parse-unittests/main.rs", true),
        ("front_random", "etc/correctness/test-parse-random/_common.rs", true),
        ("front_rng", "etc/correctness/rng-tests/_common.rs", true),
    ];
    for (name, rel, _) in subjects {
        let p = repo.join(rel);
        println!("cargo:rerun-if-changed={}", p.display());
        let text = match fs::read_to_string(&p) {
            Ok(t) => match cut_region(&t) {
                Some(r) => wrap(&r),
                None => stub(name),
            },
            Err(_) => stub(name),
        };
        fs::write(out.join(format!("{}.rs", name)), text).unwrap();
    }
}
