//! Reference big natural numbers (u32 limbs, little endian, `Vec`).
//!
//! Written for the verification harness; shares no code with the crate's
//! `bigint`/`stackvec`/`heapvec`. Plain schoolbook algorithms: clarity over speed.

use std::cmp::Ordering;

#[derive(Clone, Debug, PartialEq, Eq, Default)]
pub struct BigU {
    /// Little-endian limbs, no trailing (most-significant) zero limb.
    pub l: Vec<u32>,
}

impl BigU {
    pub fn zero() -> Self {
        BigU { l: Vec::new() }
    }
    pub fn from_u64(x: u64) -> Self {
        let mut b = BigU { l: vec![x as u32, (x >> 32) as u32] };
        b.trim();
        b
    }
    pub fn from_u128(x: u128) -> Self {
        let mut b = BigU { l: vec![x as u32, (x >> 32) as u32, (x >> 64) as u32, (x >> 96) as u32] };
        b.trim();
        b
    }
    /// From little-endian 64-bit limbs (trailing zero limbs allowed).
    pub fn from_limbs64(x: &[u64]) -> Self {
        let mut l = Vec::with_capacity(x.len() * 2);
        for &v in x {
            l.push(v as u32);
            l.push((v >> 32) as u32);
        }
        let mut b = BigU { l };
        b.trim();
        b
    }
    /// To little-endian 64-bit limbs, normalized (no trailing zero limb).
    pub fn to_limbs64(&self) -> Vec<u64> {
        let mut out = Vec::with_capacity((self.l.len() + 1) / 2);
        let mut i = 0;
        while i < self.l.len() {
            let lo = self.l[i] as u64;
            let hi = if i + 1 < self.l.len() { self.l[i + 1] as u64 } else { 0 };
            out.push(lo | (hi << 32));
            i += 2;
        }
        while out.last() == Some(&0) {
            out.pop();
        }
        out
    }
    fn trim(&mut self) {
        while self.l.last() == Some(&0) {
            self.l.pop();
        }
    }
    pub fn is_zero(&self) -> bool {
        self.l.is_empty()
    }
    pub fn is_odd(&self) -> bool {
        self.l.first().map_or(false, |x| x & 1 == 1)
    }
    pub fn bit_length(&self) -> u64 {
        match self.l.last() {
            None => 0,
            Some(&top) => 32 * self.l.len() as u64 - top.leading_zeros() as u64,
        }
    }
    pub fn bit(&self, i: u64) -> bool {
        let li = (i / 32) as usize;
        li < self.l.len() && (self.l[li] >> (i % 32)) & 1 == 1
    }
    /// True if any bit strictly below position `i` is set.
    pub fn any_below(&self, i: u64) -> bool {
        let li = (i / 32) as usize;
        for (k, &v) in self.l.iter().enumerate() {
            if k < li {
                if v != 0 {
                    return true;
                }
            } else if k == li {
                let m = (1u64 << (i % 32)) - 1;
                return (v as u64 & m) != 0;
            }
        }
        false
    }
    pub fn to_u64(&self) -> Option<u64> {
        match self.l.len() {
            0 => Some(0),
            1 => Some(self.l[0] as u64),
            2 => Some(self.l[0] as u64 | (self.l[1] as u64) << 32),
            _ => None,
        }
    }
    pub fn to_u128(&self) -> Option<u128> {
        if self.l.len() > 4 {
            return None;
        }
        let mut v = 0u128;
        for (i, &x) in self.l.iter().enumerate() {
            v |= (x as u128) << (32 * i);
        }
        Some(v)
    }
    pub fn mul_small(&mut self, y: u32) {
        if y == 0 {
            self.l.clear();
            return;
        }
        let mut carry = 0u64;
        for x in self.l.iter_mut() {
            let z = *x as u64 * y as u64 + carry;
            *x = z as u32;
            carry = z >> 32;
        }
        if carry != 0 {
            self.l.push(carry as u32);
        }
    }
    pub fn add_small(&mut self, y: u32) {
        let mut carry = y as u64;
        for x in self.l.iter_mut() {
            if carry == 0 {
                return;
            }
            let z = *x as u64 + carry;
            *x = z as u32;
            carry = z >> 32;
        }
        if carry != 0 {
            self.l.push(carry as u32);
        }
    }
    pub fn mul_u64(&self, y: u64) -> BigU {
        self.mul(&BigU::from_u64(y))
    }
    pub fn add_u64(&self, y: u64) -> BigU {
        self.add(&BigU::from_u64(y))
    }
    pub fn add(&self, o: &BigU) -> BigU {
        let n = self.l.len().max(o.l.len());
        let mut out = Vec::with_capacity(n + 1);
        let mut carry = 0u64;
        for i in 0..n {
            let a = *self.l.get(i).unwrap_or(&0) as u64;
            let b = *o.l.get(i).unwrap_or(&0) as u64;
            let z = a + b + carry;
            out.push(z as u32);
            carry = z >> 32;
        }
        if carry != 0 {
            out.push(carry as u32);
        }
        let mut r = BigU { l: out };
        r.trim();
        r
    }
    /// self - o; panics if o > self.
    pub fn sub(&self, o: &BigU) -> BigU {
        assert!(self.cmp(o) != Ordering::Less, "bigref: negative subtraction");
        let mut out = Vec::with_capacity(self.l.len());
        let mut borrow = 0i64;
        for i in 0..self.l.len() {
            let a = self.l[i] as i64;
            let b = *o.l.get(i).unwrap_or(&0) as i64;
            let mut z = a - b - borrow;
            if z < 0 {
                z += 1 << 32;
                borrow = 1;
            } else {
                borrow = 0;
            }
            out.push(z as u32);
        }
        let mut r = BigU { l: out };
        r.trim();
        r
    }
    pub fn mul(&self, o: &BigU) -> BigU {
        if self.is_zero() || o.is_zero() {
            return BigU::zero();
        }
        let mut out = vec![0u32; self.l.len() + o.l.len()];
        for (i, &a) in self.l.iter().enumerate() {
            let mut carry = 0u64;
            if a == 0 {
                continue;
            }
            for (j, &b) in o.l.iter().enumerate() {
                let z = out[i + j] as u64 + a as u64 * b as u64 + carry;
                out[i + j] = z as u32;
                carry = z >> 32;
            }
            let mut k = i + o.l.len();
            while carry != 0 {
                let z = out[k] as u64 + carry;
                out[k] = z as u32;
                carry = z >> 32;
                k += 1;
            }
        }
        let mut r = BigU { l: out };
        r.trim();
        r
    }
    pub fn shl(&self, n: u64) -> BigU {
        if self.is_zero() {
            return BigU::zero();
        }
        let limbs = (n / 32) as usize;
        let bits = (n % 32) as u32;
        let mut out = vec![0u32; limbs];
        if bits == 0 {
            out.extend_from_slice(&self.l);
        } else {
            let mut prev = 0u32;
            for &x in &self.l {
                out.push((x << bits) | (prev >> (32 - bits)));
                prev = x;
            }
            out.push(prev >> (32 - bits));
        }
        let mut r = BigU { l: out };
        r.trim();
        r
    }
    pub fn shr(&self, n: u64) -> BigU {
        let limbs = (n / 32) as usize;
        let bits = (n % 32) as u32;
        if limbs >= self.l.len() {
            return BigU::zero();
        }
        let src = &self.l[limbs..];
        let mut out = Vec::with_capacity(src.len());
        if bits == 0 {
            out.extend_from_slice(src);
        } else {
            for i in 0..src.len() {
                let hi = if i + 1 < src.len() { src[i + 1] } else { 0 };
                out.push((src[i] >> bits) | (hi << (32 - bits)));
            }
        }
        let mut r = BigU { l: out };
        r.trim();
        r
    }
    pub fn pow_small(base: u32, e: u64) -> BigU {
        let mut r = BigU::from_u64(1);
        // Multiply by the largest power of `base` that fits in u32, repeatedly.
        let mut chunk = base;
        let mut per = 1u64;
        while (chunk as u64) * (base as u64) <= u32::MAX as u64 {
            chunk *= base;
            per += 1;
        }
        let mut e = e;
        while e >= per {
            r.mul_small(chunk);
            e -= per;
        }
        for _ in 0..e {
            r.mul_small(base);
        }
        r
    }
    /// Divide in place by a small number, return the remainder.
    pub fn divrem_small(&mut self, d: u32) -> u32 {
        let mut rem = 0u64;
        for x in self.l.iter_mut().rev() {
            let cur = (rem << 32) | *x as u64;
            *x = (cur / d as u64) as u32;
            rem = cur % d as u64;
        }
        self.trim();
        rem as u32
    }
    /// Decimal digits (ASCII), most significant first, "0" for zero.
    pub fn to_dec(&self) -> Vec<u8> {
        if self.is_zero() {
            return vec![b'0'];
        }
        let mut t = self.clone();
        let mut chunks: Vec<u32> = Vec::new();
        while !t.is_zero() {
            chunks.push(t.divrem_small(1_000_000_000));
        }
        let mut out = Vec::with_capacity(chunks.len() * 9);
        let top = chunks.pop().unwrap();
        out.extend_from_slice(top.to_string().as_bytes());
        for c in chunks.iter().rev() {
            out.extend_from_slice(format!("{:09}", c).as_bytes());
        }
        out
    }
    pub fn from_dec(d: &[u8]) -> BigU {
        let mut r = BigU::zero();
        let mut i = 0;
        while i < d.len() {
            let n = (d.len() - i).min(9);
            let mut v = 0u32;
            for &c in &d[i..i + n] {
                assert!(c.is_ascii_digit());
                v = v * 10 + (c - b'0') as u32;
            }
            r.mul_small(10u32.pow(n as u32));
            r.add_small(v);
            i += n;
        }
        r
    }
    pub fn to_hex(&self) -> String {
        if self.is_zero() {
            return "0".to_string();
        }
        let mut s = format!("{:x}", self.l[self.l.len() - 1]);
        for x in self.l.iter().rev().skip(1) {
            s.push_str(&format!("{:08x}", x));
        }
        s
    }
}

impl PartialOrd for BigU {
    fn partial_cmp(&self, o: &Self) -> Option<Ordering> {
        Some(self.cmp(o))
    }
}
impl Ord for BigU {
    fn cmp(&self, o: &Self) -> Ordering {
        if self.l.len() != o.l.len() {
            return self.l.len().cmp(&o.l.len());
        }
        for i in (0..self.l.len()).rev() {
            if self.l[i] != o.l[i] {
                return self.l[i].cmp(&o.l[i]);
            }
        }
        Ordering::Equal
    }
}

#[cfg(test)]
mod tests {
    use super::*;
    #[test]
    fn basics() {
        let a = BigU::from_dec(b"123456789012345678901234567890");
        assert_eq!(a.to_dec(), b"123456789012345678901234567890".to_vec());
        let b = a.mul(&a);
        assert_eq!(b.to_dec(), b"15241578753238836750495351562536198787501905199875019052100".to_vec());
        assert_eq!(b.sub(&a).add(&a), b);
        assert_eq!(a.shl(77).shr(77), a);
        assert_eq!(BigU::pow_small(5, 30).to_dec(), b"931322574615478515625".to_vec());
        assert_eq!(BigU::from_u64(1).shl(100).bit_length(), 101);
        let mut c = b.clone();
        let r = c.divrem_small(97);
        let mut d = c.clone();
        d.mul_small(97);
        d.add_small(r);
        assert_eq!(d, b);
    }
}
