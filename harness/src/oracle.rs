//! Exact decision procedure for "is this float the correctly rounded
//! (nearest, ties-to-even) image of this decimal?", written from the IEEE-754
//! definition. Shares no code and no approximation with the crate under test:
//! floats' rounding boundaries (midpoints) are expanded to exact decimal digit
//! strings and compared with the input digit string, using every digit.

use crate::bigref::BigU;
use std::cmp::Ordering;
use std::sync::OnceLock;

#[derive(Clone, Copy, Debug, PartialEq, Eq)]
pub struct Fmt {
    pub name: &'static str,
    pub mant_bits: u32,
    pub exp_bits: u32,
}

pub const F64: Fmt = Fmt { name: "f64", mant_bits: 52, exp_bits: 11 };
pub const F32: Fmt = Fmt { name: "f32", mant_bits: 23, exp_bits: 8 };

impl Fmt {
    pub fn bias(&self) -> i64 {
        (1i64 << (self.exp_bits - 1)) - 1
    }
    pub fn hidden(&self) -> u64 {
        1u64 << self.mant_bits
    }
    pub fn frac_mask(&self) -> u64 {
        self.hidden() - 1
    }
    pub fn inf_bits(&self) -> u64 {
        ((1u64 << self.exp_bits) - 1) << self.mant_bits
    }
    pub fn max_finite_bits(&self) -> u64 {
        self.inf_bits() - 1
    }
    pub fn sign_bit(&self) -> u64 {
        1u64 << (self.mant_bits + self.exp_bits)
    }
    pub fn min_k(&self) -> i64 {
        1 - self.bias() - self.mant_bits as i64
    }
    /// Finite non-negative bits -> (m, k) with value = m * 2^k.
    pub fn decode(&self, bits: u64) -> (u64, i64) {
        let e = (bits >> self.mant_bits) as i64;
        let f = bits & self.frac_mask();
        if e == 0 {
            (f, self.min_k())
        } else {
            (f | self.hidden(), e - self.bias() - self.mant_bits as i64)
        }
    }
    pub fn is_nan(&self, bits: u64) -> bool {
        (bits & !self.sign_bit()) > self.inf_bits()
    }
    /// Maximum number of significant decimal digits of a float or midpoint.
    pub fn max_sig_digits(&self) -> usize {
        if self.mant_bits == 52 {
            767
        } else {
            112
        }
    }
}

pub fn pow5(e: usize) -> &'static BigU {
    static T: OnceLock<Vec<BigU>> = OnceLock::new();
    let t = T.get_or_init(|| {
        let mut v = Vec::with_capacity(1800);
        let mut cur = BigU::from_u64(1);
        for _ in 0..1800 {
            v.push(cur.clone());
            cur.mul_small(5);
        }
        v
    });
    &t[e]
}

/// A non-negative decimal: value = 0.d1 d2 ... dn * 10^point, d1 != 0, dn != 0
/// (zero: no digits).
#[derive(Clone, Debug, PartialEq, Eq)]
pub struct Dec {
    pub d: Vec<u8>,
    pub point: i64,
}

impl Dec {
    pub fn zero() -> Dec {
        Dec { d: Vec::new(), point: 0 }
    }
    pub fn is_zero(&self) -> bool {
        self.d.is_empty()
    }
    /// From all significant digits `digits` (ASCII, may have leading/trailing
    /// zeros) with value = int(digits) * 10^e10.
    pub fn from_digits(digits: &[u8], e10: i64) -> Dec {
        let lz = digits.iter().take_while(|&&c| c == b'0').count();
        if lz == digits.len() {
            return Dec::zero();
        }
        let tz = digits.iter().rev().take_while(|&&c| c == b'0').count();
        let d = digits[lz..digits.len() - tz].to_vec();
        debug_assert!(d.iter().all(|c| c.is_ascii_digit()));
        // int(digits) * 10^e10 = 0.d * 10^(len - lz + e10)
        Dec { d, point: (digits.len() - lz) as i64 + e10 }
    }
    /// From integer digits, fraction digits and exponent, as `parse_float` takes them.
    pub fn from_parts(int: &[u8], frac: &[u8], exp: i64) -> Dec {
        let mut all = Vec::with_capacity(int.len() + frac.len());
        all.extend_from_slice(int);
        all.extend_from_slice(frac);
        Dec::from_digits(&all, exp - frac.len() as i64)
    }
    pub fn from_big(n: &BigU, e10: i64) -> Dec {
        Dec::from_digits(&n.to_dec(), e10)
    }
    pub fn from_u64(w: u64, q: i64) -> Dec {
        Dec::from_digits(w.to_string().as_bytes(), q)
    }
    /// n * 2^j as an exact decimal.
    pub fn from_scaled(n: &BigU, j: i64) -> Dec {
        if j >= 0 {
            Dec::from_big(&n.shl(j as u64), 0)
        } else {
            Dec::from_big(&n.mul(pow5((-j) as usize)), j)
        }
    }
    /// (significant digits without trailing zeros, e10) with value = int(digits)*10^e10.
    pub fn digits_exp(&self) -> (&[u8], i64) {
        (&self.d, self.point - self.d.len() as i64)
    }
    pub fn to_string(&self) -> String {
        if self.is_zero() {
            return "0".into();
        }
        let (d, e) = self.digits_exp();
        let s = String::from_utf8_lossy(d);
        if s.len() > 60 {
            format!("{}...{}[{} digits]e{}", &s[..30], &s[s.len() - 20..], s.len(), e)
        } else {
            format!("{}e{}", s, e)
        }
    }
}

impl PartialOrd for Dec {
    fn partial_cmp(&self, o: &Self) -> Option<Ordering> {
        Some(self.cmp(o))
    }
}
impl Ord for Dec {
    fn cmp(&self, o: &Dec) -> Ordering {
        match (self.is_zero(), o.is_zero()) {
            (true, true) => return Ordering::Equal,
            (true, false) => return Ordering::Less,
            (false, true) => return Ordering::Greater,
            _ => {}
        }
        if self.point != o.point {
            return self.point.cmp(&o.point);
        }
        let n = self.d.len().min(o.d.len());
        match self.d[..n].cmp(&o.d[..n]) {
            Ordering::Equal => self.d.len().cmp(&o.d.len()),
            ord => ord,
        }
    }
}

/// Exact value of a finite non-negative float.
pub fn float_dec(fmt: Fmt, bits: u64) -> Dec {
    let (m, k) = fmt.decode(bits);
    Dec::from_scaled(&BigU::from_u64(m), k)
}

/// Midpoint between finite non-negative `bits` and its upper neighbour
/// (for MAX: the overflow threshold).
pub fn upper_mid(fmt: Fmt, bits: u64) -> Dec {
    let (m, k) = fmt.decode(bits);
    Dec::from_scaled(&BigU::from_u128(2 * m as u128 + 1), k - 1)
}

/// Midpoint between finite positive `bits` and its lower neighbour.
pub fn lower_mid(fmt: Fmt, bits: u64) -> Dec {
    assert!(bits > 0);
    let (m, k) = fmt.decode(bits);
    if m == fmt.hidden() && k > fmt.min_k() {
        // Lower neighbour is in the binade below: spacing halves.
        Dec::from_scaled(&BigU::from_u128(4 * m as u128 - 1), k - 2)
    } else {
        Dec::from_scaled(&BigU::from_u128(2 * m as u128 - 1), k - 1)
    }
}

/// Is `bits` the round-to-nearest-even image of `d`?
pub fn check(d: &Dec, fmt: Fmt, bits: u64) -> bool {
    if bits & fmt.sign_bit() != 0 || fmt.is_nan(bits) {
        return false;
    }
    if d.is_zero() {
        return bits == 0;
    }
    if bits == fmt.inf_bits() {
        // d must be >= the midpoint above MAX (tie goes to the even "2^(emax+1)").
        return d.cmp(&upper_mid(fmt, fmt.max_finite_bits())) != Ordering::Less;
    }
    let (m, _) = fmt.decode(bits);
    let even = m & 1 == 0;
    match d.cmp(&upper_mid(fmt, bits)) {
        Ordering::Greater => return false,
        Ordering::Equal if !even => return false,
        _ => {}
    }
    if bits == 0 {
        return true;
    }
    match d.cmp(&lower_mid(fmt, bits)) {
        Ordering::Less => false,
        Ordering::Equal => even,
        Ordering::Greater => true,
    }
}

/// Does every real in [lo, hi) round to `bits`? (lo < hi)
pub fn check_interval(lo: &Dec, hi_excl: &Dec, fmt: Fmt, bits: u64) -> bool {
    if !check(lo, fmt, bits) {
        return false;
    }
    if bits == fmt.inf_bits() {
        return true;
    }
    // All x < hi must be <= upper midpoint (strictly below it, or on it... x < hi <= mid).
    hi_excl.cmp(&upper_mid(fmt, bits)) != Ordering::Greater
}

/// Correctly rounded value of `d`, by bisection over the (monotone) bit patterns.
/// Independent of any float parser; ~60 midpoint expansions.
pub fn round(d: &Dec, fmt: Fmt) -> u64 {
    if d.is_zero() {
        return 0;
    }
    // Smallest finite b with "d rounds to b or below": d < upper(b), or d == upper(b) and b even.
    let ok = |b: u64| -> bool {
        match d.cmp(&upper_mid(fmt, b)) {
            Ordering::Less => true,
            Ordering::Equal => fmt.decode(b).0 & 1 == 0,
            Ordering::Greater => false,
        }
    };
    let (mut lo, mut hi) = (0u64, fmt.inf_bits()); // answer in [lo, hi]; hi = inf means none finite
    if !ok(fmt.max_finite_bits()) {
        return fmt.inf_bits();
    }
    hi -= 1;
    while lo < hi {
        let mid = lo + (hi - lo) / 2;
        if ok(mid) {
            hi = mid;
        } else {
            lo = mid + 1;
        }
    }
    lo
}

/// Second referee: the Rust standard library's parser (independent code base).
pub fn std_parse(fmt: Fmt, int: &[u8], frac: &[u8], exp: i64) -> Option<u64> {
    let mut s = String::with_capacity(int.len() + frac.len() + 16);
    s.push_str(std::str::from_utf8(int).ok()?);
    if int.is_empty() {
        s.push('0');
    }
    s.push('.');
    s.push_str(std::str::from_utf8(frac).ok()?);
    s.push('0');
    s.push_str(&format!("e{}", exp));
    if fmt.mant_bits == 52 {
        s.parse::<f64>().ok().map(|x| x.to_bits())
    } else {
        s.parse::<f32>().ok().map(|x| x.to_bits() as u64)
    }
}

#[cfg(test)]
mod tests {
    use super::*;
    #[test]
    fn simple() {
        let one = Dec::from_parts(b"1", b"", 0);
        assert!(check(&one, F64, 1.0f64.to_bits()));
        assert!(!check(&one, F64, 1.0f64.to_bits() + 1));
        assert_eq!(round(&one, F64), 1.0f64.to_bits());
        assert_eq!(round(&Dec::from_parts(b"", b"1", 0), F64), 0.1f64.to_bits());
        assert_eq!(round(&Dec::from_parts(b"", b"1", 0), F32), 0.1f32.to_bits() as u64);
        assert_eq!(round(&Dec::from_parts(b"1", b"", 400), F64), F64.inf_bits());
        assert_eq!(round(&Dec::from_parts(b"1", b"", -400), F64), 0);
        assert_eq!(round(&Dec::from_parts(b"5", b"", -324), F64), 1);
        // 2^-1075 exactly is a tie -> 0; a hair above -> 1
        let tie = upper_mid(F64, 0);
        assert_eq!(round(&tie, F64), 0);
        let mut above = tie.clone();
        above.d.push(b'1');
        assert_eq!(round(&above, F64), 1);
        // overflow threshold
        let thr = upper_mid(F64, F64.max_finite_bits());
        assert_eq!(round(&thr, F64), F64.inf_bits());
        for x in [1.5f64, 3.141592653589793, 1e300, 5e-324, 2.2250738585072014e-308, f64::MAX] {
            let d = float_dec(F64, x.to_bits());
            assert_eq!(round(&d, F64), x.to_bits());
            assert!(check(&d, F64, x.to_bits()));
            assert!(check(&upper_mid(F64, x.to_bits()), F64, x.to_bits()) == (x.to_bits() & 1 == 0));
        }
        assert_eq!(std_parse(F64, b"12", b"5", 1), Some(125.0f64.to_bits()));
    }
}
