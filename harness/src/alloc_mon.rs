//! Counting global allocator with a thread-local "armed" window (C15).
//! A binary opts in with `#[global_allocator] static A: CountingAlloc = CountingAlloc;`.

use std::alloc::{GlobalAlloc, Layout, System};
use std::cell::Cell;

pub struct CountingAlloc;

thread_local! {
    static ARMED: Cell<bool> = const { Cell::new(false) };
    static EVENTS: Cell<u64> = const { Cell::new(0) };
    static BYTES: Cell<u64> = const { Cell::new(0) };
}

#[inline]
fn note(size: usize) {
    // try_with: never panic inside the allocator (thread teardown).
    let _ = ARMED.try_with(|a| {
        if a.get() {
            let _ = EVENTS.try_with(|e| e.set(e.get() + 1));
            let _ = BYTES.try_with(|b| b.set(b.get() + size as u64));
        }
    });
}

unsafe impl GlobalAlloc for CountingAlloc {
    unsafe fn alloc(&self, l: Layout) -> *mut u8 {
        note(l.size());
        System.alloc(l)
    }
    unsafe fn dealloc(&self, p: *mut u8, l: Layout) {
        note(0);
        System.dealloc(p, l)
    }
    unsafe fn alloc_zeroed(&self, l: Layout) -> *mut u8 {
        note(l.size());
        System.alloc_zeroed(l)
    }
    unsafe fn realloc(&self, p: *mut u8, l: Layout, n: usize) -> *mut u8 {
        note(n);
        System.realloc(p, l, n)
    }
}

/// Run `f` with the monitor armed on this thread; returns (result, allocator events, bytes requested).
#[inline]
pub fn watch<T>(f: impl FnOnce() -> T) -> (T, u64, u64) {
    let e0 = EVENTS.with(|e| e.get());
    let b0 = BYTES.with(|b| b.get());
    ARMED.with(|a| a.set(true));
    let r = f();
    ARMED.with(|a| a.set(false));
    (r, EVENTS.with(|e| e.get()) - e0, BYTES.with(|b| b.get()) - b0)
}
