//! Common library of the verification harness for `minimal-lexical`.
//! Uses only the crate's public API (`parse_float`, `Float`) plus the hook sink.

pub mod alloc_mon;
pub mod bigref;
pub mod gen;
pub mod oracle;
pub mod rng;
pub mod sink;
pub mod util;

use gen::Case;
use oracle::Fmt;

/// Name of the feature configuration this binary was built with.
pub fn config_name() -> &'static str {
    match (cfg!(feature = "std"), cfg!(feature = "compact"), cfg!(feature = "alloc")) {
        (true, false, false) => "default",
        (true, true, false) => "compact",
        (true, false, true) => "alloc",
        (true, true, true) => "compact+alloc",
        (false, false, false) => "nostd",
        (false, true, false) => "nostd+compact",
        (false, false, true) => "nostd+alloc",
        (false, true, true) => "nostd+compact+alloc",
    }
}

pub fn profile_name() -> &'static str {
    if cfg!(debug_assertions) {
        "chk"
    } else {
        "rel"
    }
}

/// Call the crate's public entry point with slice iterators; result as raw bits.
#[inline]
pub fn parse_bits(fmt: Fmt, int: &[u8], frac: &[u8], exp: i32) -> u64 {
    if fmt.mant_bits == 52 {
        minimal_lexical::parse_float::<f64, _, _>(int.iter(), frac.iter(), exp).to_bits()
    } else {
        minimal_lexical::parse_float::<f32, _, _>(int.iter(), frac.iter(), exp).to_bits() as u64
    }
}

#[inline]
pub fn parse_case(fmt: Fmt, c: &Case) -> u64 {
    parse_bits(fmt, &c.int, &c.frac, c.exp)
}

pub fn fmt_of(name: &str) -> Fmt {
    match name {
        "f64" => oracle::F64,
        "f32" => oracle::F32,
        _ => panic!("unknown format {}", name),
    }
}

pub fn bits_hex(fmt: Fmt, bits: u64) -> String {
    if fmt.mant_bits == 52 {
        format!("{:016x}", bits)
    } else {
        format!("{:08x}", bits)
    }
}
