//! SplitMix64: tiny, seedable, splittable PRNG (no third-party crates).

#[derive(Clone, Debug)]
pub struct Rng(pub std::cell::Cell<u64>);

impl Rng {
    pub fn new(seed: u64) -> Self {
        let r = Rng(std::cell::Cell::new(seed ^ 0x9E37_79B9_7F4A_7C15));
        r.next();
        r
    }
    /// Independent sub-stream (e.g. per shard, per generator).
    pub fn fork(&self, k: u64) -> Rng {
        let r = Rng(std::cell::Cell::new(self.0.get() ^ k.wrapping_mul(0xD6E8_FEB8_6659_FD93).rotate_left(17) ^ 0xA076_1D64_78BD_642F));
        r.next();
        r.next();
        r
    }
    #[inline]
    pub fn next(&self) -> u64 {
        self.0.set(self.0.get().wrapping_add(0x9E37_79B9_7F4A_7C15));
        let mut z = self.0.get();
        z = (z ^ (z >> 30)).wrapping_mul(0xBF58_476D_1CE4_E5B9);
        z = (z ^ (z >> 27)).wrapping_mul(0x94D0_49BB_1331_11EB);
        z ^ (z >> 31)
    }
    /// Uniform in [0, n) (n > 0).
    #[inline]
    pub fn below(&self, n: u64) -> u64 {
        ((self.next() as u128 * n as u128) >> 64) as u64
    }
    /// Uniform in [lo, hi] inclusive.
    #[inline]
    pub fn range(&self, lo: i64, hi: i64) -> i64 {
        debug_assert!(lo <= hi);
        lo + self.below((hi - lo) as u64 + 1) as i64
    }
    #[inline]
    pub fn chance(&self, num: u64, den: u64) -> bool {
        self.below(den) < num
    }
    pub fn pick<'a, T>(&self, xs: &'a [T]) -> &'a T {
        &xs[self.below(xs.len() as u64) as usize]
    }
    /// A u64 with a "structured" distribution: random bit length, and
    /// sometimes few set bits / runs of ones.
    pub fn structured_u64(&self) -> u64 {
        let bits = self.range(1, 64) as u32;
        let v = match self.below(6) {
            0 => u64::MAX,
            1 => 1u64 << 63,
            2 => {
                let mut v = 0u64;
                for _ in 0..self.range(1, 4) {
                    v |= 1u64 << self.below(64);
                }
                v
            }
            3 => !(1u64 << self.below(64)),
            _ => self.next(),
        };
        let v = if bits == 64 { v } else { v & ((1u64 << bits) - 1) };
        v | (1u64 << (bits - 1))
    }
    pub fn digit(&self) -> u8 {
        b'0' + self.below(10) as u8
    }
    pub fn nz_digit(&self) -> u8 {
        b'1' + self.below(9) as u8
    }
    pub fn digits(&self, n: usize) -> Vec<u8> {
        (0..n).map(|_| self.digit()).collect()
    }
}

/// 64-bit FNV-1a style mixing for case hashes (distinctness accounting).
#[derive(Clone, Copy)]
pub struct Hasher64(pub u64);
impl Hasher64 {
    pub fn new() -> Self {
        Hasher64(0xcbf2_9ce4_8422_2325)
    }
    #[inline]
    pub fn bytes(&mut self, b: &[u8]) -> &mut Self {
        for &x in b {
            self.0 = (self.0 ^ x as u64).wrapping_mul(0x0000_0100_0000_01B3);
        }
        self.0 = (self.0 ^ 0xff).wrapping_mul(0x0000_0100_0000_01B3);
        self
    }
    #[inline]
    pub fn u64(&mut self, v: u64) -> &mut Self {
        self.bytes(&v.to_le_bytes())
    }
    pub fn finish(&self) -> u64 {
        let mut z = self.0;
        z = (z ^ (z >> 30)).wrapping_mul(0xBF58_476D_1CE4_E5B9);
        z = (z ^ (z >> 27)).wrapping_mul(0x94D0_49BB_1331_11EB);
        z ^ (z >> 31)
    }
}
