//! Workload generators for `parse_float` inputs (DESIGN §5). Everything is a
//! deterministic function of the `Rng` stream.

use crate::bigref::BigU;
use crate::oracle::{self, Dec, Fmt};
use crate::rng::{Hasher64, Rng};

#[derive(Clone, Debug, PartialEq, Eq)]
pub struct Case {
    pub int: Vec<u8>,
    pub frac: Vec<u8>,
    pub exp: i32,
    pub tag: &'static str,
}

impl Case {
    pub fn new(int: &[u8], frac: &[u8], exp: i32, tag: &'static str) -> Case {
        Case { int: int.to_vec(), frac: frac.to_vec(), exp, tag }
    }
    pub fn dec(&self) -> Dec {
        Dec::from_parts(&self.int, &self.frac, self.exp as i64)
    }
    pub fn ndigits(&self) -> usize {
        self.int.len() + self.frac.len()
    }
    /// Significant digit count (leading zeros of an empty-integer fraction and trailing zeros dropped).
    pub fn sig_digits(&self) -> usize {
        self.dec().d.len()
    }
    pub fn hash(&self) -> u64 {
        let mut h = Hasher64::new();
        h.bytes(&self.int).bytes(&self.frac).u64(self.exp as i64 as u64);
        h.finish()
    }
    /// Replay key: `hexint:hexfrac:exp` (hex of the raw bytes).
    pub fn key(&self) -> String {
        format!("{}:{}:{}", crate::util::hex(&self.int), crate::util::hex(&self.frac), self.exp)
    }
    pub fn from_key(k: &str) -> Case {
        let p: Vec<&str> = k.split(':').collect();
        assert!(p.len() == 3, "case key must be hexint:hexfrac:exp");
        Case { int: crate::util::unhex(p[0]), frac: crate::util::unhex(p[1]), exp: p[2].parse().expect("exp"), tag: "replay" }
    }
    pub fn show(&self) -> String {
        format!("{}.{}e{}", crate::util::show(&self.int), crate::util::show(&self.frac), self.exp)
    }
    pub fn json(&self) -> String {
        format!(
            "{{\"tag\":{},\"input\":{},\"key\":{}}}",
            crate::util::json_str(self.tag),
            crate::util::json_str(&self.show()),
            crate::util::json_str(&if self.ndigits() <= 120 { self.key() } else { format!("[{} digits]", self.ndigits()) })
        )
    }
    pub fn is_valid(&self) -> bool {
        self.int.iter().all(|c| c.is_ascii_digit()) && self.frac.iter().all(|c| c.is_ascii_digit()) && self.int.first() != Some(&b'0')
    }
}

fn i32_of(e: i64) -> Option<i32> {
    if e >= i32::MIN as i64 && e <= i32::MAX as i64 {
        Some(e as i32)
    } else {
        None
    }
}

/// Lay out significant digits `sig` (first digit non-zero) with value
/// int(sig) * 10^e10 as (integer, fraction, exponent).
/// layout: 0 integer only; 1 fraction only with `z` leading zeros; 2 split at `s`.
pub fn place(sig: &[u8], e10: i64, layout: u64, z: usize, s: usize, tag: &'static str) -> Option<Case> {
    debug_assert!(!sig.is_empty() && sig[0] != b'0');
    let n = sig.len();
    match layout {
        0 => Some(Case { int: sig.to_vec(), frac: vec![], exp: i32_of(e10)?, tag }),
        1 => {
            let mut frac = vec![b'0'; z];
            frac.extend_from_slice(sig);
            Some(Case { int: vec![], frac, exp: i32_of(e10 + (z + n) as i64)?, tag })
        }
        3 => {
            // positional ("{}"-style) spelling: exponent 0, the point placed by zero padding
            if e10.abs() > 1500 {
                return place(sig, e10, 2, z, s, tag);
            }
            if e10 >= 0 {
                let mut int = sig.to_vec();
                int.resize(n + e10 as usize, b'0');
                Some(Case { int, frac: vec![b'0'; z.min(3)], exp: 0, tag })
            } else if ((-e10) as usize) < n {
                let k = n - (-e10) as usize;
                Some(Case { int: sig[..k].to_vec(), frac: sig[k..].to_vec(), exp: 0, tag })
            } else {
                let mut frac = vec![b'0'; (-e10) as usize - n];
                frac.extend_from_slice(sig);
                Some(Case { int: vec![], frac, exp: 0, tag })
            }
        }
        _ => {
            if n < 2 {
                return place(sig, e10, 0, 0, 0, tag);
            }
            let s = s.clamp(1, n - 1);
            Some(Case { int: sig[..s].to_vec(), frac: sig[s..].to_vec(), exp: i32_of(e10 + (n - s) as i64)?, tag })
        }
    }
}

pub fn place_random(rng: &mut Rng, sig: &[u8], e10: i64, tag: &'static str) -> Option<Case> {
    let n = sig.len();
    let layout = if rng.chance(1, 6) { 3 } else { rng.below(3) };
    let z = match rng.below(8) {
        0 => rng.below(400) as usize,
        1 => 19,
        2 => 20,
        _ => rng.below(4) as usize,
    };
    let s = if rng.chance(1, 2) { rng.range(1, n.max(2) as i64 - 1) as usize } else { rng.range(1, 25).min(n.max(2) as i64 - 1) as usize };
    place(sig, e10, layout, z, s, tag)
}

/// A finite non-negative float of the format, biased to the places where
/// algorithms change behaviour.
pub fn pick_float(rng: &mut Rng, fmt: Fmt) -> u64 {
    let emax = (1u64 << fmt.exp_bits) - 2; // largest finite biased exponent
    let fm = fmt.frac_mask();
    let frac = |rng: &mut Rng| -> u64 {
        match rng.below(10) {
            0 => 0,
            1 => 1,
            2 => fm,
            3 => fm - 1,
            4 => 1u64 << rng.below(fmt.mant_bits as u64),
            5 => fm ^ (1u64 << rng.below(fmt.mant_bits as u64)),
            _ => rng.next() & fm,
        }
    };
    match rng.below(20) {
        0 => {
            // specials
            let specials = [0, 1, 2, fm, fm - 1, fmt.hidden(), fmt.hidden() + 1, fmt.max_finite_bits(), fmt.max_finite_bits() - 1, (fmt.bias() as u64) << fmt.mant_bits];
            *rng.pick(&specials)
        }
        1 | 2 => frac(rng),                                   // subnormals
        3 => (rng.range(1, 3) as u64) << fmt.mant_bits | frac(rng), // first normal binades
        4 => (emax - rng.below(2)) << fmt.mant_bits | frac(rng),    // top binades
        5 | 6 => {
            // around 1.0 .. 2^(p+12): short expansions, fast-path territory
            let e = fmt.bias() as u64 + rng.below(fmt.mant_bits as u64 + 14);
            e.min(emax) << fmt.mant_bits | frac(rng)
        }
        7 => {
            // small negative exponents: short-ish fractions
            let e = fmt.bias() as u64 - rng.below(30);
            e << fmt.mant_bits | frac(rng)
        }
        _ => rng.below(emax + 1) << fmt.mant_bits | frac(rng),
    }
}

#[derive(Clone, Copy, Debug, PartialEq, Eq)]
pub enum Rel {
    Equal,
    Above,
    Below,
    Unknown,
}

/// A rounding-relevant point of the format: a midpoint between adjacent floats
/// (`mid = true`) or an exactly representable value. Digits without trailing zeros.
pub struct Boundary {
    pub bits: u64,
    pub mid: bool,
    pub d: Dec,
}

pub fn boundary(fmt: Fmt, bits: u64, mid: bool) -> Boundary {
    // zero has no digits to vary: use the midpoint above it instead
    let mid = mid || bits == 0;
    let d = if mid { oracle::upper_mid(fmt, bits) } else { oracle::float_dec(fmt, bits) };
    Boundary { bits, mid, d }
}

/// Interesting total digit counts: the places where the crate changes strategy.
pub fn interesting_len(rng: &mut Rng, fmt: Fmt) -> usize {
    let maxd = if fmt.mant_bits == 52 { 769 } else { 114 };
    match rng.below(12) {
        0 => 19,
        1 => 20,
        2 => 21,
        3 => 19 * rng.range(1, 42) as usize + rng.range(0, 2) as usize - 1,
        4 | 5 | 6 => (maxd as i64 + rng.range(-4, 5)) as usize,
        7 => rng.range(1, 40) as usize,
        8 => rng.range(40, 1200) as usize,
        9 => match rng.below(40) {
            0 => 100_000,
            1 => 1_000_000,
            2 | 3 => 10_000,
            _ => rng.range(1000, 5000) as usize,
        },
        _ => rng.range(15, 26) as usize,
    }
}

/// One variant of digits around a boundary point: returns (sig digits, e10, tag, relation to the boundary).
pub fn variant(rng: &mut Rng, fmt: Fmt, b: &Dec, which: u64) -> (Vec<u8>, i64, &'static str, Rel) {
    let (s0, e10_0) = b.digits_exp();
    // integers with trailing decimal zeros: write the zeros out for the variants that append digits,
    // so that what is appended is an epsilon and not a multiple of 10^e10
    let padded: Vec<u8>;
    let (s, e10): (&[u8], i64) = if e10_0 > 0 && e10_0 <= 400 && (1..=3).contains(&which) {
        let mut p = s0.to_vec();
        p.resize(s0.len() + e10_0 as usize, b'0');
        padded = p;
        (&padded, 0)
    } else {
        (s0, e10_0)
    };
    let n = s.len();
    debug_assert!(n > 0);
    match which {
        0 => (s.to_vec(), e10, "EXACT", Rel::Equal),
        1 => {
            // trailing zeros, total length at an interesting place when possible
            let tl = interesting_len(rng, fmt);
            let z = if tl > n && rng.chance(2, 3) { tl - n } else { rng.below(41) as usize };
            let mut v = s.to_vec();
            v.resize(n + z, b'0');
            (v, e10 - z as i64, "ZEROS", Rel::Equal)
        }
        2 => {
            // a non-zero digit after k zeros; the deciding digit lands at an interesting offset when possible
            let tl = interesting_len(rng, fmt);
            let k = if tl > n + 1 && rng.chance(3, 4) { tl - n - 1 } else { rng.below(4) as usize };
            let mut v = s.to_vec();
            v.resize(n + k, b'0');
            v.push(rng.nz_digit());
            // sometimes more garbage digits after it
            let extra = if rng.chance(1, 4) { rng.below(30) as usize } else { 0 };
            for _ in 0..extra {
                v.push(rng.digit());
            }
            (v, e10 - (k + 1 + extra) as i64, "ABOVE", Rel::Above)
        }
        3 => {
            // S*10^k - 1: last digit decremented, then k nines
            let tl = interesting_len(rng, fmt);
            let k = if tl > n && rng.chance(3, 4) { tl - n } else { rng.below(4) as usize };
            let mut v = s.to_vec();
            let mut i = n;
            loop {
                i -= 1;
                if v[i] == b'0' {
                    v[i] = b'9';
                } else {
                    v[i] -= 1;
                    break;
                }
            }
            v.resize(n + k, b'9');
            let lz = v.iter().take_while(|&&c| c == b'0').count();
            let v: Vec<u8> = v[lz..].to_vec();
            if v.is_empty() {
                return (vec![b'1'], e10 - 400, "BELOW", Rel::Below);
            }
            (v, e10 - k as i64, "BELOW", if k == 0 { Rel::Unknown } else { Rel::Below })
        }
        4 => {
            // truncation of the expansion
            if n < 3 {
                return (s.to_vec(), e10, "EXACT", Rel::Equal);
            }
            let t = match rng.below(4) {
                0 => rng.range(1, n as i64 - 1) as usize,
                1 => (n - 1 - rng.below(3.min(n as u64 - 1)) as usize).max(1),
                _ => (interesting_len(rng, fmt)).clamp(1, n - 1),
            };
            let mut v = s[..t].to_vec();
            let tz = v.iter().rev().take_while(|&&c| c == b'0').count();
            v.truncate(t - tz);
            (v, e10 + (n - t + tz) as i64, "TRUNC", Rel::Unknown)
        }
        5 => {
            // round up at position t: first t digits + 1 ulp of that position
            if n < 3 {
                return (s.to_vec(), e10, "EXACT", Rel::Equal);
            }
            let t = match rng.below(3) {
                0 => rng.range(1, n as i64 - 1) as usize,
                _ => (interesting_len(rng, fmt)).clamp(1, n - 1),
            };
            let mut v = s[..t].to_vec();
            let mut i = t;
            loop {
                if i == 0 {
                    v.insert(0, b'1');
                    break;
                }
                i -= 1;
                if v[i] == b'9' {
                    v[i] = b'0';
                } else {
                    v[i] += 1;
                    break;
                }
            }
            let e = e10 + (n - t) as i64;
            let tz = v.iter().rev().take_while(|&&c| c == b'0').count();
            let l = v.len();
            v.truncate(l - tz);
            (v, e + tz as i64, "ROUNDUP", Rel::Unknown)
        }
        _ => {
            // nudge the last digit
            let mut v = s.to_vec();
            if rng.chance(1, 2) || v[n - 1] == b'9' {
                v[n - 1] -= 1;
                let lz = v.iter().take_while(|&&c| c == b'0').count();
                let tz = v.iter().rev().take_while(|&&c| c == b'0').count();
                if lz == v.len() {
                    return (vec![b'1'], e10 - 400, "NUDGE", Rel::Unknown);
                }
                let l = v.len();
                let v2 = v[lz..l - tz].to_vec();
                (v2, e10 + tz as i64, "NUDGE", Rel::Unknown)
            } else {
                v[n - 1] += 1;
                (v, e10, "NUDGE", Rel::Unknown)
            }
        }
    }
}

/// G1: boundary-directed case.
pub fn g1(rng: &mut Rng, fmt: Fmt) -> Case {
    loop {
        let bits = pick_float(rng, fmt);
        let mid = rng.chance(4, 5) || bits == 0;
        let b = boundary(fmt, bits, mid);
        let which = *rng.pick(&[0u64, 1, 1, 2, 2, 2, 3, 3, 3, 4, 5, 6]);
        let (sig, e10, tag, _rel) = variant(rng, fmt, &b.d, which);
        if let Some(c) = place_random(rng, &sig, e10, tag) {
            return c;
        }
    }
}

/// (k, odd o = 2m+1 of 54 bits, n, o * 5^k below 2^n?) for every number k of decimal places at which some f64 halfway
/// significand makes o * 5^k land within 2^-57 (relative) of a power of two 2^n.
fn limb_boundary_table() -> &'static Vec<(usize, u64, u64, bool)> {
    static T: std::sync::OnceLock<Vec<(usize, u64, u64, bool)>> = std::sync::OnceLock::new();
    T.get_or_init(|| {
        let mut out = Vec::new();
        for k in 28usize..1100 {
            let p5 = oracle::pow5(k);
            let l = p5.bit_length();
            let n = l + 53; // 2^n / 5^k in (2^53, 2^54]
            // 64-bit estimate of the quotient, then exact evaluation of the odd candidates around it
            let top = p5.shr(l - 64).to_u64().unwrap(); // [2^63, 2^64)
            let est = ((1u128 << 117) / top as u128) as u64; // ~ 2^(n) / 5^k
            let pow2 = BigU::from_u64(1).shl(n);
            let mut best: Option<(u64, u64, bool)> = None; // (error bits below n, o, below)
            for d in -4i64..=4 {
                let o = (est as i64 + d) as u64 | 1;
                if o < (1u64 << 53) || o >= (1u64 << 54) {
                    continue;
                }
                let prod = BigU::from_u64(o).mul(p5);
                let (diff, below) = if prod < pow2 { (pow2.sub(&prod), true) } else { (prod.sub(&pow2), false) };
                let gap_bits = n - diff.bit_length(); // error ~ 2^-gap_bits relative
                if best.map_or(true, |b| gap_bits > b.0) {
                    best = Some((gap_bits, o, below));
                }
            }
            if let Some((g, o, below)) = best {
                if g >= 57 {
                    out.push((k, o, n, below));
                }
            }
        }
        out
    })
}

/// Inputs for which the two big integers of the final slow-path comparison - the decimal digits D and the scaled halfway
/// point T = (2m+1) x 5^k x 2^s - lie on different sides of a power of 2^64, i.e. have different limb counts although
/// they differ by less than 2^-57: T is built next to a limb boundary (table above, s chosen so that the power of two is a
/// limb boundary), D is T, T +- 1, the boundary itself, the boundary +- 1, or a point between. f64 only (no 25-bit odd
/// number gets that close to a power of two).
pub fn g_limb_boundary(rng: &mut Rng) -> Option<Case> {
    let t = limb_boundary_table();
    if t.is_empty() {
        return None;
    }
    let (k, o, n, below) = t[rng.below(t.len() as u64) as usize];
    // n + s = 64 j, s > 0, at most ~769 digits
    let jmin = n / 64 + 1;
    let jmax = 39u64;
    if jmin > jmax {
        return None;
    }
    let j = rng.range(jmin as i64, jmax as i64) as u64;
    let s = 64 * j - n;
    let e = s as i64 + 1 - k as i64; // binary exponent of b's ulp: b = m x 2^e
    if !(-1074..=971).contains(&e) {
        return None;
    }
    let tt = BigU::from_u64(o).mul(oracle::pow5(k)).shl(s);
    let bd = BigU::from_u64(1).shl(64 * j);
    let d = match rng.below(8) {
        0 => tt.clone(),
        1 => tt.add_u64(1),
        2 => tt.sub(&BigU::from_u64(1)),
        3 => bd.clone(),
        4 => bd.add_u64(1),
        5 => bd.sub(&BigU::from_u64(1)),
        6 => {
            // somewhere between the two
            let (lo, hi) = if below { (&tt, &bd) } else { (&bd, &tt) };
            let gap = hi.sub(lo);
            let r = BigU::from_u64(rng.next() | 1 << 63).mul(&gap).shr(64);
            lo.add(&r)
        }
        _ => if below { bd.add_u64(rng.below(1 << 20)) } else { bd.sub(&BigU::from_u64(1 + rng.below(1 << 20))) },
    };
    let digits = d.to_dec();
    let tz = digits.iter().rev().take_while(|&&c| c == b'0').count();
    let sig = &digits[..digits.len() - tz];
    let mut c = place_random(rng, sig, tz as i64 - k as i64, "LIMB_BOUNDARY")?;
    c.tag = "LIMB_BOUNDARY";
    Some(c)
}

/// G1X: "pseudo-midpoints" outside the range of the format. The moderate stage works on the top bits of w x 10^q and only
/// looks at the range at the very end, so a value far above MAX (or far below the smallest subnormal) whose leading bits
/// look like a halfway pattern - (2m+1) x 2^(k-1) with a p-bit m and k beyond the exponent range - is declined like a
/// real near-tie and reaches the big-integer path with its float clamped to infinity / zero. Same variants as G1.
pub fn g1x(rng: &mut Rng, fmt: Fmt) -> Case {
    let fm = fmt.frac_mask();
    loop {
        let frac = match rng.below(6) {
            0 => 0,
            1 => fm,
            2 => 1u64 << rng.below(fmt.mant_bits as u64),
            _ => rng.next() & fm,
        };
        let m = fmt.hidden() | frac;
        let d = match rng.below(6) {
            0 => rng.below(4) as i64,
            1 => rng.range(60, 70),
            2 => rng.range(120, 135),
            _ => rng.range(0, 420),
        };
        let (kmax, _) = (fmt.decode(fmt.max_finite_bits()).1, 0);
        let above = rng.chance(3, 5);
        let k = if above { kmax + 1 + d } else { (fmt.min_k() - 1 - d.min(if fmt.mant_bits == 52 { 600 } else { 420 })).max(-1700) };
        let n = if rng.chance(5, 6) { 2 * m as u128 + 1 } else { 2 * m as u128 };
        let b = Dec::from_scaled(&BigU::from_u128(n), k - 1);
        let which = *rng.pick(&[0u64, 1, 2, 2, 2, 3, 3, 3, 4, 5, 6]);
        let (sig, e10, _tag, _rel) = variant(rng, fmt, &b, which);
        if let Some(mut c) = place_random(rng, &sig, e10, "OUT_OF_RANGE_MIDPOINT") {
            c.tag = if above { "PSEUDO_MIDPOINT_ABOVE_RANGE" } else { "PSEUDO_MIDPOINT_BELOW_RANGE" };
            return c;
        }
    }
}

/// G1 restricted to a given float and variant (used by enumerations).
pub fn g1_for(rng: &mut Rng, fmt: Fmt, bits: u64, mid: bool, which: u64) -> (Case, Rel) {
    loop {
        let b = boundary(fmt, bits, mid);
        let (sig, e10, tag, rel) = variant(rng, fmt, &b.d, which);
        if let Some(c) = place_random(rng, &sig, e10, tag) {
            return (c, rel);
        }
    }
}

/// G9: uniform / structured random valid inputs.
pub fn g9(rng: &mut Rng, fmt: Fmt) -> Case {
    let (lo, hi) = if fmt.mant_bits == 52 { (-345i64, 312i64) } else { (-60, 42) };
    loop {
        let n = match rng.below(10) {
            0 => rng.range(1, 4),
            1 | 2 | 3 => rng.range(1, 19),
            4 => rng.range(19, 21),
            5 => rng.range(20, 60),
            6 => interesting_len(rng, fmt) as i64,
            _ => rng.range(1, 25),
        } as usize;
        let n = n.min(3000);
        let mut sig = rng.digits(n);
        sig[0] = rng.nz_digit();
        match rng.below(6) {
            0 => {
                // few non-zero digits
                for d in sig.iter_mut().skip(1) {
                    if rng.chance(9, 10) {
                        *d = b'0';
                    }
                }
            }
            1 => {
                for d in sig.iter_mut().skip(1) {
                    *d = b'9';
                }
            }
            _ => {}
        }
        // target decimal magnitude (position of the leading digit)
        let mag = match rng.below(8) {
            0 => rng.range(-25, 40), // fast-path land
            1 => rng.range(lo - 10, lo + 40),
            2 => rng.range(hi - 20, hi + 6),
            _ => rng.range(lo, hi),
        };
        let e10 = mag - n as i64 + 1;
        if let Some(c) = place_random(rng, &sig, e10, "RANDOM") {
            return c;
        }
    }
}

/// Fast-path seams: w around 2^(p+1) and powers of ten, q around the fast /
/// disguised-fast limits.
pub fn g_seam(rng: &mut Rng, fmt: Fmt) -> Case {
    let p1 = fmt.mant_bits as u64 + 1; // 53 / 24
    let (qa, qb) = if fmt.mant_bits == 52 { (22i64, 37i64) } else { (10, 17) };
    loop {
        let base: u64 = match rng.below(8) {
            0 => 1u64 << p1,
            1 => (1u64 << p1) / 10u64.pow(rng.range(1, 6) as u32),
            2 => 10u64.pow(rng.range(1, 19) as u32),
            3 => (1u64 << p1) / 10u64.pow(rng.range(1, (qb - qa).min(15)) as u32),
            4 => 1u64 << rng.range(1, 63),
            5 => u64::MAX / 10u64.pow(rng.range(0, 5) as u32),
            6 => 9_999_999_999_999_999_999u64,
            _ => rng.structured_u64(),
        };
        let w = (base as i128 + rng.range(-4, 4) as i128).clamp(1, u64::MAX as i128) as u64;
        if rng.chance(1, 5) {
            // the "disguised" fast path moves s powers of ten into the significand: the places where m x 10^s crosses
            // 2^p (its limit) and 2^64 (overflow of the integer multiplication), s = 1..15, +- a few and +- 0.2 %
            let s = rng.range(1, qb - qa) as u32;
            let lim: u128 = if rng.chance(1, 2) { 1u128 << 64 } else { 1u128 << p1 };
            let m0 = (lim / 10u128.pow(s)) as i128;
            let d = if rng.chance(1, 2) { rng.range(-3, 3) as i128 } else { rng.range(-(m0 as i64 / 500).max(4), (m0 as i64 / 500).max(4)) as i128 };
            let m = (m0 + d).clamp(1, u64::MAX as i128) as u64;
            let sig = m.to_string().into_bytes();
            if let Some(mut c) = place_random(rng, &sig, qa + s as i64, "SEAM") {
                c.tag = "SEAM_DISGUISED_LIMIT";
                return c;
            }
        }
        let q = match rng.below(8) {
            0 => rng.range(-qa - 2, -qa + 2),
            1 => rng.range(qa - 2, qa + 2),
            2 => rng.range(qb - 2, qb + 2),
            3 => rng.range(qa, qb),
            4 => rng.range(-3, 3),
            _ => rng.range(-qa - 6, qb + 6),
        };
        let mut sig = w.to_string().into_bytes();
        let mut q = q;
        if rng.chance(1, 4) {
            // the structured significand as a PREFIX: more digits follow (the truncating routes see 2^k - 1, 10^k - 1 ... as w)
            let k = rng.range(1, 12);
            for _ in 0..k {
                sig.push(if rng.chance(1, 3) { b'0' } else { rng.digit() });
            }
            if sig.last() == Some(&b'0') {
                *sig.last_mut().unwrap() = rng.nz_digit();
            }
            q -= k;
        }
        if let Some(c) = place_random(rng, &sig, q, "SEAM") {
            return c;
        }
    }
}

/// G5: exact ties w * 10^q = (2m+1) * 2^j with w < 2^64, inside and just outside the tie windows.
pub fn g5(rng: &mut Rng, fmt: Fmt) -> Case {
    let p = fmt.mant_bits as u64 + 2; // 2m+1 has p bits: 54 / 25
    loop {
        // odd t with exactly p bits, sometimes fewer (still representable -> exact, not tie) for contrast
        let bits_t = if rng.chance(5, 6) { p } else { rng.range(2, p as i64) as u64 };
        let q: i64 = if fmt.mant_bits == 52 { rng.range(-6, 25) } else { rng.range(-19, 12) };
        let mut t: u128 = (rng.next() as u128 & ((1u128 << bits_t) - 1)) | (1u128 << (bits_t - 1)) | 1;
        let w: u128;
        if q >= 0 {
            // w * 5^q must equal t * 2^s with t odd: choose t = 5^q * u
            let f = 5u128.pow(q as u32);
            if f >= (1u128 << bits_t) {
                continue;
            }
            let mut u = t / f;
            if u % 2 == 0 {
                u += 1;
            }
            t = u * f;
            if t >> (bits_t - 1) != 1 {
                continue;
            }
            let smax = 63 - (128 - u.leading_zeros() as i64).min(63);
            let s = rng.range(0, smax.max(0));
            w = u << s;
        } else {
            let f = 5u128.pow((-q) as u32);
            let base = t.checked_mul(f);
            let base = match base {
                Some(b) if b < (1u128 << 64) => b,
                _ => continue,
            };
            let smax = base.leading_zeros() as i64 - 64;
            let s = rng.range(0, smax.max(0));
            w = base << s;
        }
        if w == 0 || w >= (1u128 << 64) {
            continue;
        }
        // optional perturbation by +-1 (near-tie that is not a tie)
        let w = match rng.below(6) {
            0 => w + 1,
            1 => w - 1,
            _ => w,
        };
        if w == 0 || w >= (1u128 << 64) {
            continue;
        }
        // scale the binary exponent over the whole range by moving q? No: keep exact; vary decimal layout only.
        let sig = (w as u64).to_string().into_bytes();
        if let Some(c) = place_random(rng, &sig, q, "TIE19") {
            return c;
        }
    }
}

/// G3: range ends - extreme exponents, compensated digit strings, zero significands.
pub fn g3(rng: &mut Rng, fmt: Fmt) -> Case {
    let (lo, hi) = if fmt.mant_bits == 52 { (-324i64, 309i64) } else { (-46, 39) };
    loop {
        match rng.below(10) {
            0 => {
                // zero significand, any exponent, any number of zeros
                let zi = 0usize;
                let zf = *rng.pick(&[0usize, 1, 5, 19, 20, 21, 800, 5000]);
                let e = pick_exp(rng);
                let _ = zi;
                return Case { int: vec![], frac: vec![b'0'; zf], exp: e, tag: "ZERO" };
            }
            1 => {
                // raw extreme: the *given* exponent (not the value's) is extreme, with digits on both sides of
                // the point and around the 19/20-digit switch - every saturating adjustment in the digit
                // accumulator is exercised in both directions
                let ni = *rng.pick(&[0usize, 0, 1, 5, 18, 19, 20, 21, 25, 40]);
                let nf = *rng.pick(&[0usize, 1, 5, 18, 19, 20, 21, 25, 40, 300]);
                let mut int = rng.digits(ni);
                if ni > 0 {
                    int[0] = rng.nz_digit();
                }
                let mut frac = rng.digits(nf);
                if nf > 0 && rng.chance(1, 2) {
                    // leading zeros in the fraction
                    let z = rng.range(0, nf as i64) as usize;
                    for d in frac.iter_mut().take(z) {
                        *d = b'0';
                    }
                }
                if nf > 0 {
                    frac[nf - 1] = rng.nz_digit();
                }
                let e = pick_exp(rng);
                return Case { int, frac, exp: e, tag: "EXTREME_EXP" };
            }
            2 => {
                // short digits with an extreme or boundary exponent
                let n = rng.range(1, 25) as usize;
                let mut sig = rng.digits(n);
                sig[0] = rng.nz_digit();
                let e = pick_exp(rng);
                if let Some(c) = place_random(rng, &sig, e as i64, "EXTREME_EXP").filter(|_| true) {
                    return c;
                }
            }
            3 | 4 => {
                // "1" + zeros compensated by a negative exponent: d * 10^N with e = -N + k
                let n = *rng.pick(&[1usize, 10, 19, 20, 25, 300, 400, 769, 770, 1000, 5000, 20000, 100_000, 1_000_000]);
                let n = if n > 5000 && !rng.chance(1, 30) { 400 } else { n };
                let k = rng.range(lo - 3, hi + 3);
                let mut int = vec![b'0'; n + 1];
                int[0] = rng.nz_digit();
                if rng.chance(1, 2) {
                    let l = int.len();
                    int[l - 1] = rng.nz_digit();
                }
                if rng.chance(1, 3) && n > 20 {
                    let pos = rng.range(1, n as i64 - 1) as usize;
                    int[pos] = rng.nz_digit();
                }
                let e = k - n as i64;
                if let Some(e) = i32_of(e) {
                    return Case { int, frac: vec![], exp: e, tag: "COMP_INT" };
                }
            }
            5 | 6 => {
                // fraction with N leading zeros compensated by a positive exponent
                let n = *rng.pick(&[1usize, 10, 19, 20, 25, 300, 400, 769, 770, 1000, 5000, 20000, 100_000, 1_000_000]);
                let n = if n > 5000 && !rng.chance(1, 30) { 400 } else { n };
                let m = rng.range(1, 30) as usize;
                let mut frac = vec![b'0'; n];
                let mut sig = rng.digits(m);
                sig[0] = rng.nz_digit();
                frac.extend_from_slice(&sig);
                let k = rng.range(lo - 3, hi + 3);
                if let Some(e) = i32_of(k + n as i64) {
                    return Case { int: vec![], frac, exp: e, tag: "COMP_FRAC" };
                }
            }
            7 => {
                // boundaries at the range ends, all variants
                let specials = [0u64, 1, 2, fmt.frac_mask() - 1, fmt.frac_mask(), fmt.hidden(), fmt.max_finite_bits() - 1, fmt.max_finite_bits()];
                let bits = *rng.pick(&specials);
                let which = rng.below(7);
                let mid = rng.chance(3, 4) || bits == 0;
                let (c, _) = g1_for(rng, fmt, bits, mid, which);
                return c;
            }
            8 => {
                // subnormal / first normal / top binade boundaries
                let bits = match rng.below(3) {
                    0 => rng.next() & fmt.frac_mask(),
                    1 => fmt.hidden() | (rng.next() & fmt.frac_mask()),
                    _ => (fmt.inf_bits() - fmt.hidden()) | (rng.next() & fmt.frac_mask()),
                };
                let which = rng.below(7);
                let mid = rng.chance(3, 4) || bits == 0;
                let (c, _) = g1_for(rng, fmt, bits, mid, which);
                return c;
            }
            _ => {
                // 19-digit significands at every decimal exponent around each early-out constant
                let qs: &[i64] = if fmt.mant_bits == 52 { &[-343, -342, -341, -325, -324, -323, -308, -307, 289, 290, 291, 307, 308, 309, 310] } else { &[-66, -65, -64, -46, -45, -44, -38, -37, 19, 20, 21, 37, 38, 39, 40] };
                let q = *rng.pick(qs) + rng.range(-1, 1);
                let n = rng.range(1, 19) as usize;
                let mut sig = match rng.below(3) {
                    0 => vec![b'9'; n],
                    1 => {
                        let mut v = vec![b'0'; n];
                        v[0] = b'1';
                        v
                    }
                    _ => rng.digits(n),
                };
                if sig[0] == b'0' {
                    sig[0] = rng.nz_digit();
                }
                // q is the exponent of the leading digit: sig * 10^(q - n + 1)
                if let Some(c) = place_random(rng, &sig, q - n as i64 + 1, "EARLY_OUT") {
                    return c;
                }
            }
        }
    }
}

pub fn pick_exp(rng: &mut Rng) -> i32 {
    let base: &[i64] = &[
        i32::MIN as i64, i32::MIN as i64 + 1, i32::MIN as i64 + 2, i32::MIN as i64 + 1_000_000, -1_000_000_000, -1_000_000, -100_000, -65536, -32768, -32767, -4097, -4096,
        -4095, -1100, -400, -345, -344, -343, -342, -341, -326, -325, -324, -323, -308, -307, -66, -65, -64, -46, -45, -38, -23, -22, -11, -10, -1, 0, 1, 10, 11, 17, 18, 22, 23,
        37, 38, 39, 40, 307, 308, 309, 310, 400, 1100, 4095, 4096, 4097, 32767, 32768, 65536, 100_000, 1_000_000, 1_000_000_000, i32::MAX as i64 - 1_000_000, i32::MAX as i64 - 2,
        i32::MAX as i64 - 1, i32::MAX as i64,
    ];
    let b = *rng.pick(base);
    let e = if rng.chance(1, 3) { b + rng.range(-3, 3) } else { b };
    e.clamp(i32::MIN as i64, i32::MAX as i64) as i32
}

/// Renderings of a float (G6): 0 shortest, 1 fixed 9/17 significant digits, 2 exact expansion.
pub fn render(fmt: Fmt, bits: u64, which: u64) -> (Vec<u8>, i64) {
    match which {
        0 | 1 => {
            let s = if fmt.mant_bits == 52 {
                let x = f64::from_bits(bits);
                if which == 0 {
                    format!("{:e}", x)
                } else {
                    format!("{:.16e}", x)
                }
            } else {
                let x = f32::from_bits(bits as u32);
                if which == 0 {
                    format!("{:e}", x)
                } else {
                    format!("{:.8e}", x)
                }
            };
            // d.ddddde[-]xx
            let (mant, exp) = s.split_once('e').expect("no exponent in {:e}");
            let e: i64 = exp.parse().expect("exp");
            let mut digits: Vec<u8> = Vec::new();
            let mut after_point = 0i64;
            let mut seen_point = false;
            for c in mant.bytes() {
                if c == b'.' {
                    seen_point = true;
                } else {
                    digits.push(c);
                    if seen_point {
                        after_point += 1;
                    }
                }
            }
            (digits, e - after_point)
        }
        _ => {
            let d = oracle::float_dec(fmt, bits);
            if d.is_zero() {
                return (vec![b'0'], 0);
            }
            let (s, e) = d.digits_exp();
            (s.to_vec(), e)
        }
    }
}

/// Read a corpus of `w q` lines (G4: continued-fraction hard cases).
/// Lines "digits exponent" (pyoracle/limbstruct.py).
pub fn read_digit_corpus(path: &str) -> Vec<(Vec<u8>, i32)> {
    let mut out = Vec::new();
    if let Ok(txt) = std::fs::read_to_string(path) {
        for l in txt.lines() {
            if l.starts_with('#') {
                continue;
            }
            let mut it = l.split_whitespace();
            if let (Some(d), Some(e)) = (it.next(), it.next()) {
                if let Ok(e) = e.parse::<i32>() {
                    // (the file is generated by pyoracle/limbstruct.py; no per-byte validation: it costs minutes under Miri)
                    if !d.is_empty() && d.as_bytes()[0].is_ascii_digit() {
                        out.push((d.as_bytes().to_vec(), e));
                    }
                }
            }
        }
    }
    out
}

/// One entry of the limb-structured corpus, as given or re-laid-out.
pub fn limb_struct_case(rng: &mut Rng, corpus: &[(Vec<u8>, i32)]) -> Option<Case> {
    if corpus.is_empty() {
        return None;
    }
    let (d, e) = &corpus[rng.below(corpus.len() as u64) as usize];
    if rng.chance(1, 2) {
        return Some(Case { int: d.clone(), frac: vec![], exp: *e, tag: "LIMB_STRUCTURED" });
    }
    let tz = d.iter().rev().take_while(|&&c| c == b'0').count();
    let mut c = place_random(rng, &d[..d.len() - tz], *e as i64 + tz as i64, "LIMB_STRUCTURED")?;
    c.tag = "LIMB_STRUCTURED";
    Some(c)
}

pub fn read_corpus(path: &str) -> Vec<(u64, i32)> {
    let txt = std::fs::read_to_string(path).unwrap_or_default();
    let mut v = Vec::new();
    for line in txt.lines() {
        let mut it = line.split_whitespace();
        if let (Some(a), Some(b)) = (it.next(), it.next()) {
            if let (Ok(w), Ok(q)) = (a.parse::<u64>(), b.parse::<i32>()) {
                v.push((w, q));
            }
        }
    }
    v
}

pub fn big_from_u64(x: u64) -> BigU {
    BigU::from_u64(x)
}
