//! Argument parsing, counters, JSON output, deadlines: shared by all engines.

use std::collections::{BTreeMap, HashSet};
use std::fmt::Write as _;
use std::time::{Duration, Instant};

pub struct Args {
    pub map: BTreeMap<String, String>,
}

impl Args {
    /// `--key value` pairs (and bare `--flag` = "1").
    pub fn parse() -> Args {
        let a: Vec<String> = std::env::args().skip(1).collect();
        let mut map = BTreeMap::new();
        let mut i = 0;
        while i < a.len() {
            if let Some(k) = a[i].strip_prefix("--") {
                if i + 1 < a.len() && !a[i + 1].starts_with("--") {
                    map.insert(k.to_string(), a[i + 1].clone());
                    i += 2;
                } else {
                    map.insert(k.to_string(), "1".to_string());
                    i += 1;
                }
            } else {
                i += 1;
            }
        }
        if map.contains_key("warmup") {
            // used by the runner to make cargo/miri build the binary before the shards start
            std::process::exit(0);
        }
        Args { map }
    }
    pub fn get(&self, k: &str) -> Option<&str> {
        self.map.get(k).map(|s| s.as_str())
    }
    pub fn str(&self, k: &str, d: &str) -> String {
        self.get(k).unwrap_or(d).to_string()
    }
    pub fn u64(&self, k: &str, d: u64) -> u64 {
        self.get(k).map(|s| s.parse().expect("bad integer argument")).unwrap_or(d)
    }
    pub fn f64(&self, k: &str, d: f64) -> f64 {
        self.get(k).map(|s| s.parse().expect("bad float argument")).unwrap_or(d)
    }
    pub fn has(&self, k: &str) -> bool {
        self.map.contains_key(k)
    }
    /// `--shard i/n`
    pub fn shard(&self) -> (u64, u64) {
        match self.get("shard") {
            None => (0, 1),
            Some(s) => {
                let (i, n) = s.split_once('/').expect("--shard i/n");
                (i.parse().unwrap(), n.parse().unwrap())
            }
        }
    }
}

pub fn json_str(s: &str) -> String {
    let mut o = String::with_capacity(s.len() + 2);
    o.push('"');
    for c in s.chars() {
        match c {
            '"' => o.push_str("\\\""),
            '\\' => o.push_str("\\\\"),
            '\n' => o.push_str("\\n"),
            '\r' => o.push_str("\\r"),
            '\t' => o.push_str("\\t"),
            c if (c as u32) < 0x20 => {
                let _ = write!(o, "\\u{:04x}", c as u32);
            }
            c => o.push(c),
        }
    }
    o.push('"');
    o
}

pub fn hex(b: &[u8]) -> String {
    let mut s = String::with_capacity(b.len() * 2);
    for x in b {
        let _ = write!(s, "{:02x}", x);
    }
    s
}

pub fn unhex(s: &str) -> Vec<u8> {
    (0..s.len() / 2).map(|i| u8::from_str_radix(&s[2 * i..2 * i + 2], 16).expect("bad hex")).collect()
}

/// Show a byte string compactly for humans (ASCII if printable, shortened).
pub fn show(b: &[u8]) -> String {
    let printable = b.iter().all(|&c| (0x20..0x7f).contains(&c));
    let s = if printable { String::from_utf8_lossy(b).to_string() } else { format!("0x{}", hex(b)) };
    if s.len() > 80 {
        format!("{}...{}[{} bytes]", &s[..40], &s[s.len() - 24..], b.len())
    } else {
        s
    }
}

/// Result summary of one shard, printed as the last stdout line `SUMMARY {json}`.
pub struct Report {
    pub prop: String,
    pub start: Instant,
    pub deadline: Instant,
    pub evals: u64,
    pub counters: BTreeMap<String, u64>,
    pub maxima: BTreeMap<String, i64>,
    pub minima: BTreeMap<String, i64>,
    pub violations: Vec<String>, // json objects
    pub nviol: u64,
    pub inconclusive: Vec<String>,
    pub samples: Vec<String>, // json values
    pub required: Vec<String>,
    pub distinct: HashSet<u64>,
    pub distinct_cap: usize,
    pub distinct_saturated: bool,
    pub extra: BTreeMap<String, String>, // raw json values
    pub sample_every: u64,
    pub log: Option<std::io::BufWriter<std::fs::File>>,
}

impl Report {
    pub fn new(prop: &str, args: &Args) -> Report {
        let budget = args.f64("budget-s", 20.0);
        let start = Instant::now();
        let log = args.get("log").map(|p| std::io::BufWriter::new(std::fs::File::create(p).expect("cannot create log")));
        Report {
            prop: prop.to_string(),
            start,
            deadline: start + Duration::from_secs_f64(budget),
            evals: 0,
            counters: BTreeMap::new(),
            maxima: BTreeMap::new(),
            minima: BTreeMap::new(),
            violations: Vec::new(),
            nviol: 0,
            inconclusive: Vec::new(),
            samples: Vec::new(),
            required: Vec::new(),
            distinct: HashSet::new(),
            distinct_cap: args.u64("distinct-cap", 3_000_000) as usize,
            distinct_saturated: false,
            extra: BTreeMap::new(),
            sample_every: 1,
            log,
        }
    }
    #[inline]
    pub fn out_of_time(&self) -> bool {
        Instant::now() >= self.deadline
    }
    #[inline]
    pub fn count(&mut self, k: &str) {
        self.add(k, 1);
    }
    pub fn add(&mut self, k: &str, n: u64) {
        if let Some(v) = self.counters.get_mut(k) {
            *v += n;
        } else {
            self.counters.insert(k.to_string(), n);
        }
    }
    pub fn max(&mut self, k: &str, v: i64) {
        let e = self.maxima.entry(k.to_string()).or_insert(i64::MIN);
        if v > *e {
            *e = v;
        }
    }
    pub fn min(&mut self, k: &str, v: i64) {
        let e = self.minima.entry(k.to_string()).or_insert(i64::MAX);
        if v < *e {
            *e = v;
        }
    }
    /// Record a distinct non-trivial case hash (capped: beyond the cap the count is a lower bound).
    #[inline]
    pub fn distinct(&mut self, h: u64) {
        if self.distinct.len() < self.distinct_cap {
            self.distinct.insert(h);
        } else {
            self.distinct_saturated = true;
        }
    }
    pub fn require(&mut self, k: &str) {
        if !self.required.iter().any(|x| x == k) {
            self.required.push(k.to_string());
        }
    }
    /// `sig` identifies the failure for known-findings matching; `detail` is a JSON object body (without braces).
    pub fn violation(&mut self, sig: &str, what: &str, replay: &str, detail: &str) {
        self.nviol += 1;
        if self.violations.len() < 40 {
            let mut s = format!(
                "{{\"sig\":{},\"what\":{},\"replay\":{}",
                json_str(sig),
                json_str(what),
                json_str(replay)
            );
            if !detail.is_empty() {
                s.push(',');
                s.push_str(detail);
            }
            s.push('}');
            self.violations.push(s);
        }
    }
    pub fn inconclusive(&mut self, why: &str) {
        if self.inconclusive.len() < 20 {
            self.inconclusive.push(json_str(why));
        }
    }
    /// Keep up to 12 samples, spread over the run (reservoir-ish: powers of two).
    pub fn sample(&mut self, json_value: impl FnOnce() -> String) {
        if self.evals % self.sample_every == 0 && self.samples.len() < 12 {
            self.samples.push(json_value());
            self.sample_every = (self.sample_every * 4).max(1);
        }
    }
    pub fn log_line(&mut self, line: &str) {
        use std::io::Write;
        if let Some(l) = self.log.as_mut() {
            let _ = l.write_all(line.as_bytes());
            let _ = l.write_all(b"\n");
        }
    }
    pub fn finish(mut self) {
        use std::io::Write;
        if let Some(mut l) = self.log.take() {
            let _ = l.flush();
        }
        let mut s = String::new();
        let _ = write!(s, "{{\"prop\":{},\"evals\":{},\"wall_s\":{:.3}", json_str(&self.prop), self.evals, self.start.elapsed().as_secs_f64());
        let _ = write!(s, ",\"distinct\":{},\"distinct_saturated\":{}", self.distinct.len(), self.distinct_saturated);
        s.push_str(",\"counters\":{");
        let mut first = true;
        for (k, v) in &self.counters {
            if !first {
                s.push(',');
            }
            first = false;
            let _ = write!(s, "{}:{}", json_str(k), v);
        }
        s.push_str("},\"maxima\":{");
        first = true;
        for (k, v) in &self.maxima {
            if !first {
                s.push(',');
            }
            first = false;
            let _ = write!(s, "{}:{}", json_str(k), v);
        }
        s.push_str("},\"minima\":{");
        first = true;
        for (k, v) in &self.minima {
            if !first {
                s.push(',');
            }
            first = false;
            let _ = write!(s, "{}:{}", json_str(k), v);
        }
        s.push_str("},\"extra\":{");
        first = true;
        for (k, v) in &self.extra {
            if !first {
                s.push(',');
            }
            first = false;
            let _ = write!(s, "{}:{}", json_str(k), v);
        }
        let _ = write!(s, "}},\"nviol\":{},\"violations\":[{}]", self.nviol, self.violations.join(","));
        let _ = write!(s, ",\"inconclusive\":[{}]", self.inconclusive.join(","));
        let _ = write!(s, ",\"samples\":[{}]", self.samples.join(","));
        let req: Vec<String> = self.required.iter().map(|r| json_str(r)).collect();
        let _ = write!(s, ",\"required\":[{}]}}", req.join(","));
        let out = std::io::stdout();
        let mut out = out.lock();
        let _ = writeln!(out, "SUMMARY {}", s);
        let _ = out.flush();
    }
}

/// Run `f`, catching a panic (unwind). Returns Err(message) on panic.
pub fn catch<T>(f: impl FnOnce() -> T) -> Result<T, String> {
    IN_CATCH.with(|c| c.set(true));
    let r = std::panic::catch_unwind(std::panic::AssertUnwindSafe(f));
    IN_CATCH.with(|c| c.set(false));
    match r {
        Ok(v) => Ok(v),
        Err(e) => {
            let msg = if let Some(s) = e.downcast_ref::<&str>() {
                s.to_string()
            } else if let Some(s) = e.downcast_ref::<String>() {
                s.clone()
            } else {
                "panic (non-string payload)".to_string()
            };
            Err(msg)
        }
    }
}

/// Install a panic hook that remembers the location and stays quiet.
pub fn quiet_panics() {
    std::panic::set_hook(Box::new(|info| {
        let loc = info.location().map(|l| format!("{}:{}", l.file(), l.line())).unwrap_or_default();
        if !IN_CATCH.with(|c| c.get()) {
            // a panic of the harness itself: be loud
            eprintln!("HARNESS PANIC at {}: {}", loc, info);
        }
        LAST_PANIC_LOC.with(|c| *c.borrow_mut() = loc);
    }));
}

thread_local! {
    static IN_CATCH: std::cell::Cell<bool> = const { std::cell::Cell::new(false) };
    pub static LAST_PANIC_LOC: std::cell::RefCell<String> = const { std::cell::RefCell::new(String::new()) };
}

pub fn last_panic_loc() -> String {
    LAST_PANIC_LOC.with(|c| c.borrow().clone())
}
