//! Event sink for the crate's observation hooks (`--cfg minimal_lexical_verif`).
//!
//! Thread-local, fixed-size, never allocates (so it cannot disturb the
//! allocation monitor and cannot itself become a race).

use std::cell::RefCell;

pub const NUMBER: u32 = 1;
pub const FAST: u32 = 2;
pub const MODERATE: u32 = 3;
pub const SLOW: u32 = 4;
pub const SLOW_POS: u32 = 5;
pub const SLOW_NEG: u32 = 6;
pub const ROUND: u32 = 7;
pub const LEMIRE: u32 = 8;
pub const BELLEROPHON: u32 = 9;
pub const LARGE_MUL: u32 = 10;

pub const RING: usize = 24;

#[derive(Clone, Copy, Debug, Default)]
pub struct Ev {
    pub code: u32,
    pub a: u64,
    pub b: u64,
    pub c: u64,
}

pub struct Sink {
    pub n: usize,
    pub ev: [Ev; RING],
    pub total: u64,
}

thread_local! {
    static SINK: RefCell<Sink> = const { RefCell::new(Sink { n: 0, ev: [Ev { code: 0, a: 0, b: 0, c: 0 }; RING], total: 0 }) };
}

#[no_mangle]
pub extern "Rust" fn minimal_lexical_verif_event(code: u32, a: u64, b: u64, c: u64) {
    SINK.with(|s| {
        let mut s = s.borrow_mut();
        let n = s.n;
        if n < RING {
            s.ev[n] = Ev { code, a, b, c };
        }
        s.n = n + 1;
        s.total += 1;
    });
}

/// Forget the events of the previous call.
#[inline]
pub fn reset() {
    SINK.with(|s| s.borrow_mut().n = 0);
}

/// Events since the last reset (at most RING are retained).
pub fn events() -> ([Ev; RING], usize) {
    SINK.with(|s| {
        let s = s.borrow();
        (s.ev, s.n.min(RING))
    })
}

pub fn total() -> u64 {
    SINK.with(|s| s.borrow().total)
}

/// What the hooks said about one `parse_float` call.
#[derive(Clone, Copy, Debug, Default, PartialEq, Eq)]
pub struct Path {
    /// negative_digit_comp: the scaled digits and the scaled halfway point have different limb counts (a power of 2^64 lies between them)
    pub neg_limbs_differ: bool,
    pub seen: bool,
    pub mantissa: u64,
    pub exponent: i64,
    pub many_digits: bool,
    pub fast: bool,
    pub disguised: bool,
    pub moderate: bool,
    pub declined: bool,
    pub slow_pos: bool,
    pub slow_neg: bool,
    pub slow_digits: u64,
    pub slow_ord: i64,
    pub pos_truncated: bool,
    pub limbs: u64,
    pub large_mul: bool,
    pub round_denormal: bool,
    pub round_shift: i64,
    pub lemire_second: bool,
    pub lemire_fallback: bool,
    pub lemire_tie: bool,
    pub lemire_subnormal: bool,
    pub lemire_w1_differs: bool,
    pub bellero_errors: u64,
    pub bellero: bool,
}

pub fn path() -> Path {
    let (ev, n) = events();
    let mut p = Path::default();
    for e in &ev[..n] {
        match e.code {
            NUMBER => {
                p.seen = true;
                p.mantissa = e.a;
                p.exponent = e.b as i64;
                p.many_digits = e.c != 0;
            }
            FAST => {
                p.fast = true;
                p.disguised = e.b != 0;
            }
            MODERATE => {
                p.moderate = true;
                p.declined = (e.b as i64) < 0;
            }
            SLOW => {
                p.slow_digits = e.b;
            }
            SLOW_POS => {
                p.slow_pos = true;
                p.limbs = p.limbs.max(e.a);
                p.pos_truncated = e.b != 0;
            }
            SLOW_NEG => {
                p.slow_neg = true;
                p.limbs = p.limbs.max(e.a).max(e.b);
                p.slow_ord = e.c as i64;
                p.neg_limbs_differ = e.a != e.b;
            }
            ROUND => {
                if e.c != 0 {
                    p.round_denormal = true;
                    p.round_shift = p.round_shift.max(e.a as i64);
                }
            }
            LEMIRE => match e.a {
                1 => p.lemire_second = true,
                2 => p.lemire_fallback = true,
                3 => p.lemire_tie = true,
                4 => p.lemire_subnormal = true,
                5 => p.lemire_w1_differs = true,
                _ => {}
            },
            BELLEROPHON => {
                p.bellero = true;
                p.bellero_errors = e.a;
            }
            LARGE_MUL => p.large_mul = true,
            _ => {}
        }
    }
    p
}

impl Path {
    /// Short name of the tier that decided the result.
    pub fn tier(&self) -> &'static str {
        if self.fast {
            if self.disguised {
                "fast_disguised"
            } else {
                "fast"
            }
        } else if self.slow_pos {
            "slow_pos"
        } else if self.slow_neg {
            "slow_neg"
        } else if self.moderate {
            "moderate"
        } else {
            "unknown"
        }
    }
}
