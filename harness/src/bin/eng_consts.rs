//! C14: dump every power constant the running program actually sees (tables, or what
//! `u64::pow` / std `powf` / the bundled libm compute in compact and no_std builds).
//! The definitions are recomputed by pyoracle/consts.py and compared there.

use mlverif::util::Args;
use mlverif::{config_name, profile_name};

fn main() {
    let _args = Args::parse();
    println!("CONFIG {} {}", config_name(), profile_name());
    // small integer powers through the hook accessor (table or u64::pow)
    for e in 0..28usize {
        println!("INT_POW5 {} {}", e, minimal_lexical::verif::int_pow(e, true));
    }
    for e in 0..20usize {
        println!("INT_POW10 {} {}", e, minimal_lexical::verif::int_pow(e, false));
    }
    // float powers as the fast path sees them
    for e in 0..=22usize {
        let v: f64 = unsafe { <f64 as minimal_lexical::Float>::pow_fast_path(e) };
        println!("F64_POW10 {} {:016x}", e, v.to_bits());
    }
    for e in 0..=10usize {
        let v: f32 = unsafe { <f32 as minimal_lexical::Float>::pow_fast_path(e) };
        println!("F32_POW10 {} {:08x}", e, v.to_bits());
    }
    #[cfg(not(feature = "compact"))]
    {
        use minimal_lexical::table::*;
        println!("POW5_RANGE {} {} {}", SMALLEST_POWER_OF_FIVE, LARGEST_POWER_OF_FIVE, POWER_OF_FIVE_128.len());
        for (i, (a, b)) in POWER_OF_FIVE_128.iter().enumerate() {
            // the table stores (first, second) = (high word, low word) of the 128-bit significand
            println!("POW5_128 {} {:016x} {:016x}", SMALLEST_POWER_OF_FIVE + i as i32, a, b);
        }
        for (i, v) in SMALL_INT_POW5.iter().enumerate() {
            println!("TABLE_INT_POW5 {} {}", i, v);
        }
        for (i, v) in SMALL_INT_POW10.iter().enumerate() {
            println!("TABLE_INT_POW10 {} {}", i, v);
        }
        for (i, v) in SMALL_F64_POW10.iter().enumerate() {
            println!("TABLE_F64_POW10 {} {:016x}", i, v.to_bits());
        }
        for (i, v) in SMALL_F32_POW10.iter().enumerate() {
            println!("TABLE_F32_POW10 {} {:08x}", i, v.to_bits());
        }
        let l: Vec<String> = LARGE_POW5.iter().map(|x| format!("{}", x)).collect();
        println!("LARGE_POW5 {} {}", LARGE_POW5_STEP, l.join(" "));
        // Lemire's decimal->binary exponent map, observed through compute_error_scaled:
        // exp = power(q) + EXPONENT_BIAS - hilz - lz - 62 + INVALID_FP with w = 2^63 (hilz = 0), lz = 0
        for q in -342..=308i32 {
            let fp = minimal_lexical::lemire::compute_error_scaled::<f64>(q, 1u64 << 63, 0);
            let power = fp.exp - <f64 as minimal_lexical::Float>::INVALID_FP - <f64 as minimal_lexical::Float>::EXPONENT_BIAS + 62;
            println!("LEMIRE_POWER {} {}", q, power);
        }
    }
    #[cfg(feature = "compact")]
    {
        use minimal_lexical::table::BASE10_POWERS as P;
        println!("BELL_PARAMS {} {} {} {} {} {} {}", P.step, P.bias, P.log2, P.log2_shift, P.small.len(), P.large.len(), P.small_int.len());
        for i in 0..P.small.len() {
            let fp = P.get_small(i);
            println!("BELL_SMALL {} {} {}", i, fp.mant, fp.exp);
        }
        for i in 0..P.large.len() {
            let fp = P.get_large(i);
            println!("BELL_LARGE {} {} {}", i, fp.mant, fp.exp);
        }
        for i in 0..P.small_int.len() {
            println!("BELL_SMALL_INT {} {}", i, P.get_small_int(i));
        }
    }
    // a few trait constants the algorithms consume
    println!("F64_CONSTS {} {} {} {} {}", <f64 as minimal_lexical::Float>::MAX_DIGITS, <f64 as minimal_lexical::Float>::SMALLEST_POWER_OF_TEN, <f64 as minimal_lexical::Float>::LARGEST_POWER_OF_TEN, <f64 as minimal_lexical::Float>::MIN_EXPONENT_ROUND_TO_EVEN, <f64 as minimal_lexical::Float>::MAX_EXPONENT_ROUND_TO_EVEN);
    println!("F32_CONSTS {} {} {} {} {}", <f32 as minimal_lexical::Float>::MAX_DIGITS, <f32 as minimal_lexical::Float>::SMALLEST_POWER_OF_TEN, <f32 as minimal_lexical::Float>::LARGEST_POWER_OF_TEN, <f32 as minimal_lexical::Float>::MIN_EXPONENT_ROUND_TO_EVEN, <f32 as minimal_lexical::Float>::MAX_EXPONENT_ROUND_TO_EVEN);
    println!("END");
}
