//! C12: big-integer arithmetic against a reference (bigref), operation by operation.
//! C13: operation histories on the stack / heap vector against an executable model.
//! Small and allocation-light enough to run under Miri / ASan / valgrind as well.

use minimal_lexical::bigint::{self, Bigint, Limb, VecType};
use mlverif::bigref::BigU;
use mlverif::rng::{Hasher64, Rng};
use mlverif::util::{self, json_str, Args, Report};
use mlverif::{config_name, profile_name};
use std::cmp::Ordering;

const HEAP: bool = cfg!(feature = "alloc");
const CAP: usize = 62;

fn limbs64(v: &BigU) -> usize {
    ((v.bit_length() + 63) / 64) as usize
}

fn gen_limbs(rng: &Rng, n: usize, normalized: bool) -> Vec<u64> {
    let mut v: Vec<u64> = match rng.below(9) {
        8 => {
            // two islands: a few low limbs, a long run of zero limbs, a few high limbs (b * 2^(64k) + a)
            let mut v = vec![0u64; n];
            if n > 0 {
                let lo = rng.range(1, 2).min(n as i64) as usize;
                let hi = rng.range(1, 2).min(n as i64) as usize;
                for x in v.iter_mut().take(lo) {
                    *x = if rng.chance(1, 3) { u64::MAX } else { rng.next() | 1 };
                }
                for x in v.iter_mut().skip(n - hi) {
                    *x = if rng.chance(1, 3) { 1 } else { rng.next() | 1 };
                }
            }
            v
        }
        0 => vec![u64::MAX; n],
        1 => {
            let mut v = vec![0u64; n];
            if n > 0 {
                v[n - 1] = 1;
            }
            v
        }
        2 => (0..n).map(|_| if rng.chance(1, 2) { 0 } else { rng.next() }).collect(),
        3 => (0..n).map(|_| if rng.chance(3, 4) { u64::MAX } else { rng.next() }).collect(),
        4 => (0..n).map(|_| rng.structured_u64()).collect(),
        _ => (0..n).map(|_| rng.next()).collect(),
    };
    if n > 0 {
        if normalized {
            if v[n - 1] == 0 {
                v[n - 1] = match rng.below(3) {
                    0 => 1,
                    1 => u64::MAX,
                    _ => rng.next() | 1,
                };
            }
        } else if rng.chance(1, 3) {
            v[n - 1] = 0;
            if n > 1 && rng.chance(1, 2) {
                v[n - 2] = 0;
            }
        }
    }
    v
}

fn pick_len(rng: &Rng, max: usize) -> usize {
    let max = max.max(1);
    match rng.below(8) {
        0 => 1,
        1 => 2,
        2 => 3,
        3 => max,
        4 => max.saturating_sub(1).max(1),
        _ => rng.range(1, max as i64) as usize,
    }
}

fn small_word(rng: &Rng) -> u64 {
    match rng.below(8) {
        0 => 0,
        1 => 1,
        2 => u64::MAX,
        3 => 1 << 63,
        4 => 10,
        5 => 5u64.pow(27),
        _ => rng.next(),
    }
}

fn hexl(v: &[u64]) -> String {
    let s: Vec<String> = v.iter().map(|x| format!("{:x}", x)).collect();
    s.join(",")
}

struct Ctx {
    rep: Report,
    replay_dir: String,
    prop: String,
    /// how to re-run this shard deterministically up to the current history (for replay files of histories)
    shard_replay: String,
}

impl Ctx {
    fn violation(&mut self, what: &str, descr: &str, observed: &str, expected: &str) {
        let mut h = Hasher64::new();
        h.bytes(descr.as_bytes());
        let sig = format!("{}:{:016x}", what, h.finish());
        let file = format!("{}/{}-{}-{}-{:016x}.json", self.replay_dir, self.prop, config_name(), profile_name(), h.finish());
        // single operations replay by their operands; histories replay by re-running the shard (same seed,
        // stop right after this history)
        let how = if what.starts_with("history") {
            self.shard_replay.replace("@EVALS@", &format!("{}", self.rep.evals + 1))
        } else {
            format!("\"replay_args\":[\"--op\",{}]", json_str(descr))
        };
        let body = format!(
            "{{\"property\":{},\"engine\":\"eng_bigint\",\"config\":{},\"profile\":{},\"what\":{},\"operation\":{},\"observed\":{},\"expected\":{},{}}}\n",
            json_str(&self.prop),
            json_str(config_name()),
            json_str(profile_name()),
            json_str(what),
            json_str(descr),
            json_str(observed),
            json_str(expected),
            how
        );
        let _ = std::fs::create_dir_all(&self.replay_dir);
        if self.rep.violations.len() < 40 {
            // replay files only for the witnesses that are reported (the rest are counted)
            let _ = std::fs::write(&file, body);
        }
        let detail = format!("\"operation\":{},\"observed\":{},\"expected\":{}", json_str(&descr.chars().take(300).collect::<String>()), json_str(&observed.chars().take(200).collect::<String>()), json_str(&expected.chars().take(200).collect::<String>()));
        self.rep.violation(&sig, what, &file, &detail);
    }
}

/// An operation with explicit operands; `descr()` is also the replay key.
#[derive(Clone, Debug)]
enum Op {
    SmallAdd(Vec<u64>, u64),
    SmallAddFrom(Vec<u64>, u64, usize),
    SmallMul(Vec<u64>, u64),
    LargeAdd(Vec<u64>, Vec<u64>),
    LargeAddFrom(Vec<u64>, Vec<u64>, usize),
    LongMul(Vec<u64>, Vec<u64>),
    LargeMul(Vec<u64>, Vec<u64>),
    MulAssign(Vec<u64>, Vec<u64>),
    Pow(Vec<u64>, u32, u32),
    ShlBits(Vec<u64>, usize),
    ShlLimbs(Vec<u64>, usize),
    Shl(Vec<u64>, usize),
    Compare(Vec<u64>, Vec<u64>),
    Normalize(Vec<u64>),
    BitLength(Vec<u64>),
    Hi64(Vec<u64>),
    FromU64(u64),
    Scalar(u64, u64, u64),
}

impl Op {
    fn name(&self) -> &'static str {
        match self {
            Op::SmallAdd(..) => "small_add",
            Op::SmallAddFrom(..) => "small_add_from",
            Op::SmallMul(..) => "small_mul",
            Op::LargeAdd(..) => "large_add",
            Op::LargeAddFrom(..) => "large_add_from",
            Op::LongMul(..) => "long_mul",
            Op::LargeMul(..) => "large_mul",
            Op::MulAssign(..) => "mul_assign",
            Op::Pow(..) => "pow",
            Op::ShlBits(..) => "shl_bits",
            Op::ShlLimbs(..) => "shl_limbs",
            Op::Shl(..) => "shl",
            Op::Compare(..) => "compare",
            Op::Normalize(..) => "normalize",
            Op::BitLength(..) => "bit_length",
            Op::Hi64(..) => "hi64",
            Op::FromU64(..) => "from_u64",
            Op::Scalar(..) => "scalar",
        }
    }
    fn descr(&self) -> String {
        match self {
            Op::SmallAdd(x, y) => format!("small_add|{}|{:x}", hexl(x), y),
            Op::SmallAddFrom(x, y, s) => format!("small_add_from|{}|{:x}|{}", hexl(x), y, s),
            Op::SmallMul(x, y) => format!("small_mul|{}|{:x}", hexl(x), y),
            Op::LargeAdd(x, y) => format!("large_add|{}|{}", hexl(x), hexl(y)),
            Op::LargeAddFrom(x, y, s) => format!("large_add_from|{}|{}|{}", hexl(x), hexl(y), s),
            Op::LongMul(x, y) => format!("long_mul|{}|{}", hexl(x), hexl(y)),
            Op::LargeMul(x, y) => format!("large_mul|{}|{}", hexl(x), hexl(y)),
            Op::MulAssign(x, y) => format!("mul_assign|{}|{}", hexl(x), hexl(y)),
            Op::Pow(x, b, e) => format!("pow|{}|{}|{}", hexl(x), b, e),
            Op::ShlBits(x, n) => format!("shl_bits|{}|{}", hexl(x), n),
            Op::ShlLimbs(x, n) => format!("shl_limbs|{}|{}", hexl(x), n),
            Op::Shl(x, n) => format!("shl|{}|{}", hexl(x), n),
            Op::Compare(x, y) => format!("compare|{}|{}", hexl(x), hexl(y)),
            Op::Normalize(x) => format!("normalize|{}", hexl(x)),
            Op::BitLength(x) => format!("bit_length|{}", hexl(x)),
            Op::Hi64(x) => format!("hi64|{}", hexl(x)),
            Op::FromU64(x) => format!("from_u64|{:x}", x),
            Op::Scalar(x, y, c) => format!("scalar|{:x}|{:x}|{:x}", x, y, c),
        }
    }
    fn parse(s: &str) -> Op {
        let p: Vec<&str> = s.split('|').collect();
        let l = |t: &str| -> Vec<u64> {
            if t.is_empty() {
                vec![]
            } else {
                t.split(',').map(|x| u64::from_str_radix(x, 16).unwrap()).collect()
            }
        };
        let h = |t: &str| u64::from_str_radix(t, 16).unwrap();
        let d = |t: &str| t.parse::<usize>().unwrap();
        match p[0] {
            "small_add" => Op::SmallAdd(l(p[1]), h(p[2])),
            "small_add_from" => Op::SmallAddFrom(l(p[1]), h(p[2]), d(p[3])),
            "small_mul" => Op::SmallMul(l(p[1]), h(p[2])),
            "large_add" => Op::LargeAdd(l(p[1]), l(p[2])),
            "large_add_from" => Op::LargeAddFrom(l(p[1]), l(p[2]), d(p[3])),
            "long_mul" => Op::LongMul(l(p[1]), l(p[2])),
            "large_mul" => Op::LargeMul(l(p[1]), l(p[2])),
            "mul_assign" => Op::MulAssign(l(p[1]), l(p[2])),
            "pow" => Op::Pow(l(p[1]), d(p[2]) as u32, d(p[3]) as u32),
            "shl_bits" => Op::ShlBits(l(p[1]), d(p[2])),
            "shl_limbs" => Op::ShlLimbs(l(p[1]), d(p[2])),
            "shl" => Op::Shl(l(p[1]), d(p[2])),
            "compare" => Op::Compare(l(p[1]), l(p[2])),
            "normalize" => Op::Normalize(l(p[1])),
            "bit_length" => Op::BitLength(l(p[1])),
            "hi64" => Op::Hi64(l(p[1])),
            "from_u64" => Op::FromU64(h(p[1])),
            "scalar" => Op::Scalar(h(p[1]), h(p[2]), h(p[3])),
            _ => panic!("unknown op {}", p[0]),
        }
    }
}

thread_local! {
    /// How `mk` builds the next operands: 0 = try_from, 1 = a Clone of that (on the heap back-end the copy's allocation is
    /// exactly as long as its contents, unlike every vector the constructors make), 2 = new + try_extend in two pieces.
    static ROUTE: std::cell::Cell<u8> = std::cell::Cell::new(0);
    /// Smallest capacity among the operands built for the current operation (the "available capacity" of the property).
    static MIN_CAP: std::cell::Cell<usize> = std::cell::Cell::new(usize::MAX);
    /// Set when a vector was seen with len > capacity after an operation.
    static BROKEN: std::cell::RefCell<Option<String>> = std::cell::RefCell::new(None);
}

fn route_of(op: &Op) -> u8 {
    let mut h = Hasher64::new();
    h.bytes(op.descr().as_bytes());
    match h.finish() % 8 {
        0 | 1 => 1,
        2 => 2,
        _ => 0,
    }
}

fn mk(x: &[u64]) -> VecType {
    let v = match ROUTE.with(|r| r.get()) {
        1 => VecType::try_from(x).expect("operand exceeds the capacity: generator error").clone(),
        2 => {
            let mut v = VecType::new();
            let k = x.len() / 2;
            v.try_extend(&x[..k]).expect("operand exceeds the capacity: generator error");
            v.try_extend(&x[k..]).expect("operand exceeds the capacity: generator error");
            v
        }
        _ => VecType::try_from(x).expect("operand exceeds the capacity: generator error"),
    };
    MIN_CAP.with(|c| c.set(c.get().min(v.capacity())));
    v
}

/// Structural invariant after an operation: the length never exceeds the capacity of the storage.
fn post_vec(v: &VecType) {
    if v.len() > v.capacity() {
        BROKEN.with(|b| *b.borrow_mut() = Some(format!("len {} > capacity {}", v.len(), v.capacity())));
    }
}

/// What the natural-number semantics demand of an in-place operation on `x0`.
struct Want {
    value: BigU,
    len: usize, // resulting vector length (value zero-extended to it)
    cap: usize, // capacity that must not be exceeded for success
}

enum Got {
    Vec(Option<Vec<u64>>), // Some(contents) or reported failure
    Panic(String),
}

fn check_inplace(ctx: &mut Ctx, op: &Op, want: Want, got: Got, _panic_is_failure: bool) {
    // `fits` is about the 62-limb design capacity the property speaks of. Beyond it the operation
    // must *report failure* (None, or a clean panic such as MulAssign's unwrap or a debug assertion);
    // the heap back-end may alternatively grow and return the exact result.
    let _ = want.cap;
    let fits = want.len <= CAP;
    ctx.rep.max("max.result_limbs", want.len as i64);
    if want.len == CAP {
        ctx.rep.count("result.exactly_at_capacity");
    }
    if want.len == CAP + 1 {
        ctx.rep.count("result.one_limb_beyond_capacity");
    }
    match got {
        Got::Panic(msg) => {
            if !fits {
                ctx.rep.count("overflow.reported_by_panic");
            } else {
                ctx.violation("unexpected-panic", &op.descr(), &msg, "exact result");
            }
        }
        Got::Vec(None) => {
            if fits && HEAP && want.len > MIN_CAP.with(|c| c.get()) {
                // heap back-end, operand with a tight allocation (a Clone): whole-limb shifts are bounded by Vec::capacity()
                // and report failure - that is "reports failure when the result does not fit the available capacity"
                ctx.rep.count("heap.tight_allocation_reported_none");
            } else if fits {
                ctx.violation("spurious-failure", &op.descr(), "None", &format!("Some({} limbs)", want.len));
            } else {
                ctx.rep.count("overflow.reported_none");
            }
        }
        Got::Vec(Some(v)) => {
            if !fits {
                if HEAP {
                    ctx.rep.count("heap.grew_beyond_62");
                    if BigU::from_limbs64(&v) != want.value {
                        ctx.violation("wrong-result", &op.descr(), &hexl(&v), &want.value.to_hex());
                    }
                } else {
                    ctx.violation("overflow-not-reported", &op.descr(), &format!("Some(len {})", v.len()), "None");
                }
                return;
            }
            if BigU::from_limbs64(&v) != want.value {
                ctx.violation("wrong-result", &op.descr(), &hexl(&v), &want.value.to_hex());
            } else if v.len() != want.len {
                ctx.violation("wrong-length", &op.descr(), &format!("len {}", v.len()), &format!("len {}", want.len));
            }
        }
    }
}

/// Fill 24 KiB of stack below the operation with a pattern, so that a limb that is counted in `len` but was never
/// written shows as a wrong value natively as well (under Miri / valgrind it is a report anyway).
#[inline(never)]
fn poison_stack(pattern: u8) -> u64 {
    let mut buf = [0u8; 24 * 1024];
    for b in buf.iter_mut() {
        unsafe { std::ptr::write_volatile(b, pattern) };
    }
    let mut acc = 0u64;
    for i in (0..buf.len()).step_by(1024) {
        acc = acc.wrapping_add(unsafe { std::ptr::read_volatile(&buf[i]) } as u64);
    }
    acc
}

fn run_op(ctx: &mut Ctx, op: &Op) {
    let route = route_of(op);
    if ctx.rep.evals % 4 == 0 {
        std::hint::black_box(poison_stack(if ctx.rep.evals % 8 == 0 { 0xff } else { 0xa5 }));
        ctx.rep.count("stack_poisoned_before_operation");
    }
    ROUTE.with(|r| r.set(route));
    MIN_CAP.with(|c| c.set(usize::MAX));
    ctx.rep.count(["operands.by_try_from", "operands.by_clone", "operands.by_new_extend"][route as usize]);
    run_op_inner(ctx, op);
    ROUTE.with(|r| r.set(0));
    if let Some(msg) = BROKEN.with(|b| b.borrow_mut().take()) {
        ctx.violation("length-exceeds-capacity", &format!("{} (operands built by route {})", op.descr(), route), &msg, "len <= capacity");
    }
}

fn run_op_inner(ctx: &mut Ctx, op: &Op) {
    ctx.rep.evals += 1;
    ctx.rep.count(&format!("op.{}", op.name()));
    let cap = if HEAP { usize::MAX } else { CAP };
    let inplace = |f: &dyn Fn(&mut VecType) -> Option<()>, x: &[u64]| -> Got {
        let r = util::catch(|| {
            let mut v = mk(x);
            let r = f(&mut v);
            post_vec(&v);
            r.map(|_| v.to_vec())
        });
        match r {
            Ok(o) => Got::Vec(o),
            Err(m) => Got::Panic(format!("panic at {}: {}", util::last_panic_loc(), m)),
        }
    };
    match op {
        Op::SmallAdd(x, y) => {
            let value = BigU::from_limbs64(x).add_u64(*y);
            let len = x.len().max(limbs64(&value));
            let got = inplace(&|v| bigint::small_add(v, *y as Limb), x);
            check_inplace(ctx, op, Want { value, len, cap }, got, false);
        }
        Op::SmallAddFrom(x, y, s) => {
            let value = BigU::from_limbs64(x).add(&BigU::from_u64(*y).shl(64 * *s as u64));
            let len = x.len().max(limbs64(&value));
            let got = inplace(&|v| bigint::small_add_from(v, *y as Limb, *s), x);
            check_inplace(ctx, op, Want { value, len, cap }, got, false);
        }
        Op::SmallMul(x, y) => {
            let value = BigU::from_limbs64(x).mul_u64(*y);
            let len = x.len().max(limbs64(&value));
            let got = inplace(&|v| bigint::small_mul(v, *y as Limb), x);
            check_inplace(ctx, op, Want { value, len, cap }, got, false);
        }
        Op::LargeAdd(x, y) | Op::LargeAddFrom(x, y, _) => {
            let s = if let Op::LargeAddFrom(_, _, s) = op { *s } else { 0 };
            let value = BigU::from_limbs64(x).add(&BigU::from_limbs64(y).shl(64 * s as u64));
            let mut len = x.len().max(limbs64(&value));
            if !y.is_empty() {
                len = len.max(y.len() + s);
            }
            let got = if let Op::LargeAdd(..) = op { inplace(&|v| bigint::large_add(v, y), x) } else { inplace(&|v| bigint::large_add_from(v, y, s), x) };
            check_inplace(ctx, op, Want { value, len, cap }, got, false);
        }
        Op::LongMul(x, y) => {
            let value = BigU::from_limbs64(x).mul(&BigU::from_limbs64(y));
            let len = limbs64(&value);
            let r = util::catch(|| bigint::long_mul(x, y).map(|v| v.to_vec()));
            let got = match r {
                Ok(o) => Got::Vec(o),
                Err(m) => Got::Panic(m),
            };
            check_inplace(ctx, op, Want { value, len, cap }, got, false);
        }
        Op::LargeMul(x, y) => {
            let value = BigU::from_limbs64(x).mul(&BigU::from_limbs64(y));
            let len = limbs64(&value);
            let got = inplace(&|v| bigint::large_mul(v, y), x);
            check_inplace(ctx, op, Want { value, len, cap }, got, false);
        }
        Op::MulAssign(x, y) => {
            let value = BigU::from_limbs64(x).mul(&BigU::from_limbs64(y));
            let len = limbs64(&value);
            let r = util::catch(|| {
                let mut a = Bigint { data: mk(x) };
                let b = Bigint { data: mk(y) };
                a *= &b;
                post_vec(&a.data);
                a.data.to_vec()
            });
            let got = match r {
                Ok(v) => Got::Vec(Some(v)),
                Err(m) => Got::Panic(m),
            };
            check_inplace(ctx, op, Want { value, len, cap }, got, true);
        }
        Op::Pow(x, base, e) => {
            let xv = BigU::from_limbs64(x);
            let mut value = xv.clone();
            if base % 5 == 0 {
                value = value.mul(&BigU::pow_small(5, *e as u64));
            }
            let mut len = x.len().max(limbs64(&value));
            if base % 2 == 0 {
                // shl by e bits: bits then limbs
                if e % 64 != 0 {
                    value = value.shl((*e % 64) as u64);
                    len = len.max(limbs64(&value));
                }
                if e / 64 != 0 {
                    value = value.shl(64 * (*e / 64) as u64);
                    if len > 0 {
                        len += (*e / 64) as usize;
                    }
                }
            }
            let r = util::catch(|| {
                let mut a = Bigint { data: mk(x) };
                let r = a.pow(*base, *e);
                post_vec(&a.data);
                r.map(|_| a.data.to_vec())
            });
            let got = match r {
                Ok(o) => Got::Vec(o),
                Err(m) => Got::Panic(m),
            };
            check_inplace(ctx, op, Want { value, len, cap }, got, false);
        }
        Op::ShlBits(x, n) => {
            let value = BigU::from_limbs64(x).shl(*n as u64);
            let len = x.len().max(limbs64(&value));
            let got = inplace(&|v| bigint::shl_bits(v, *n), x);
            check_inplace(ctx, op, Want { value, len, cap }, got, false);
        }
        Op::ShlLimbs(x, n) => {
            if *n > 200 {
                ctx.rep.count("shift.absurd_count");
            }
            let value = if *n > 200 { BigU::from_limbs64(&[]) } else { BigU::from_limbs64(x).shl(64 * *n as u64) };
            let len = if x.is_empty() { 0 } else { x.len() + n };
            // both back-ends compare against the vector's own capacity()
            let vcap = mk(x).capacity();
            let got = inplace(&|v| bigint::shl_limbs(v, *n), x);
            let want = Want { value, len: if x.is_empty() { 0 } else { len }, cap: vcap };
            // an empty vector with n beyond the capacity is declined by the code; both answers are exact for zero
            if x.is_empty() {
                if let Got::Vec(None) = got {
                    if n + 0 > vcap {
                        ctx.rep.count("shl_limbs.empty_declined");
                        return;
                    }
                }
            }
            check_inplace_cap(ctx, op, want, got);
        }
        Op::Shl(x, n) if *n > 64 * 200 => {
            // absurd shift: the result cannot fit; the value is never needed
            ctx.rep.count("shift.absurd_count");
            let got = inplace(&|v| bigint::shl(v, *n), x);
            check_inplace(ctx, op, Want { value: BigU::from_limbs64(&[]), len: x.len() + n / 64, cap }, got, false);
        }
        Op::Shl(x, n) => {
            let xv = BigU::from_limbs64(x);
            let mut value = xv.clone();
            let mut len = x.len();
            if n % 64 != 0 {
                value = value.shl((*n % 64) as u64);
                len = len.max(limbs64(&value));
            }
            if n / 64 != 0 {
                value = value.shl(64 * (*n / 64) as u64);
                if len > 0 {
                    len += n / 64;
                }
            }
            let got = inplace(&|v| bigint::shl(v, *n), x);
            check_inplace(ctx, op, Want { value, len, cap }, got, false);
        }
        Op::Compare(x, y) => {
            let want = BigU::from_limbs64(x).cmp(&BigU::from_limbs64(y));
            let r = util::catch(|| {
                let a = mk(x);
                let b = mk(y);
                (bigint::compare(&a, &b), a.cmp(&b), a == b, a.partial_cmp(&b))
            });
            match r {
                Ok((c1, c2, eq, pc)) => {
                    if c1 != want || c2 != want || eq != (want == Ordering::Equal) || pc != Some(want) {
                        ctx.violation("wrong-comparison", &op.descr(), &format!("compare={:?} cmp={:?} eq={} partial={:?}", c1, c2, eq, pc), &format!("{:?}", want));
                    }
                    ctx.rep.count(&format!("compare.{:?}", want));
                }
                Err(m) => ctx.violation("unexpected-panic", &op.descr(), &m, "an ordering"),
            }
        }
        Op::Normalize(x) => {
            let mut want = x.clone();
            while want.last() == Some(&0) {
                want.pop();
            }
            let was_norm = want.len() == x.len();
            let r = util::catch(|| {
                let mut a = mk(x);
                let isn = a.is_normalized();
                let isn2 = bigint::is_normalized(&a);
                a.normalize();
                (isn, isn2, a.to_vec(), a.is_normalized())
            });
            match r {
                Ok((isn, isn2, v, after)) => {
                    if isn != was_norm || isn2 != was_norm || v != want || !after {
                        ctx.violation("wrong-normalize", &op.descr(), &format!("is_normalized={} -> {} (then {})", isn, hexl(&v), after), &format!("is_normalized={} -> {}", was_norm, hexl(&want)));
                    }
                    if !was_norm {
                        ctx.rep.count("normalize.removed_zero_limbs");
                    }
                }
                Err(m) => ctx.violation("unexpected-panic", &op.descr(), &m, "normalized vector"),
            }
        }
        Op::BitLength(x) => {
            let xv = BigU::from_limbs64(x);
            let want_bl = xv.bit_length() as u32;
            let want_lz = if x.is_empty() { 0 } else { x[x.len() - 1].leading_zeros() };
            let r = util::catch(|| {
                let a = Bigint { data: mk(x) };
                (a.bit_length(), bigint::bit_length(&a.data), bigint::leading_zeros(&a.data))
            });
            match r {
                Ok((b1, b2, lz)) => {
                    if b1 != want_bl || b2 != want_bl || lz != want_lz {
                        ctx.violation("wrong-bit-length", &op.descr(), &format!("{} {} lz={}", b1, b2, lz), &format!("{} lz={}", want_bl, want_lz));
                    }
                }
                Err(m) => ctx.violation("unexpected-panic", &op.descr(), &m, "bit length"),
            }
        }
        Op::Hi64(x) => {
            let xv = BigU::from_limbs64(x);
            let bl = xv.bit_length();
            let (wv, wn) = if bl == 0 {
                (0u64, false)
            } else if bl <= 64 {
                (xv.to_u64().unwrap() << (64 - bl), false)
            } else {
                (xv.shr(bl - 64).to_u64().unwrap(), xv.any_below(bl - 64))
            };
            if bl > 128 && wn {
                // sticky bit comes from below the two top limbs?
                if !xv.any_below(bl - 64) || BigU::from_limbs64(&x[..x.len() - 2]).is_zero() == false {
                    ctx.rep.count("hi64.sticky_from_deep_limbs");
                }
            }
            let r = util::catch(|| {
                let a = Bigint { data: mk(x) };
                (a.hi64(), bigint::hi64(&a.data), a.data.hi64())
            });
            match r {
                Ok((h1, h2, h3)) => {
                    if h1 != (wv, wn) || h2 != (wv, wn) || h3 != (wv, wn) {
                        ctx.violation("wrong-hi64", &op.descr(), &format!("{:x?}", h1), &format!("({:x}, {})", wv, wn));
                    }
                    ctx.rep.count(if wn { "hi64.truncated_true" } else { "hi64.truncated_false" });
                }
                Err(m) => ctx.violation("unexpected-panic", &op.descr(), &m, "hi64"),
            }
        }
        Op::FromU64(x) => {
            let r = util::catch(|| (Bigint::from_u64(*x).data.to_vec(), bigint::from_u64(*x).to_vec(), VecType::from_u64(*x).to_vec()));
            let want: Vec<u64> = if *x == 0 { vec![] } else { vec![*x] };
            match r {
                Ok((a, b, c)) => {
                    if a != want || b != want || c != want {
                        ctx.violation("wrong-from-u64", &op.descr(), &hexl(&a), &hexl(&want));
                    }
                }
                Err(m) => ctx.violation("unexpected-panic", &op.descr(), &m, "vector"),
            }
        }
        Op::Scalar(x, y, c) => {
            let (s, o) = bigint::scalar_add(*x as Limb, *y as Limb);
            let ws = (*x as u128) + (*y as u128);
            let (lo, hi) = bigint::scalar_mul(*x as Limb, *y as Limb, *c as Limb);
            let wm = (*x as u128) * (*y as u128) + (*c as u128);
            if s as u128 != (ws & u64::MAX as u128) || o != (ws >> 64 != 0) || lo as u128 != (wm & u64::MAX as u128) || hi as u128 != wm >> 64 {
                ctx.violation("wrong-scalar", &op.descr(), &format!("add=({:x},{}) mul=({:x},{:x})", s, o, lo, hi), &format!("add={:x} mul={:x}", ws, wm));
            }
        }
    }
}

/// shl_limbs: success is tied to the vector's own capacity in both back-ends.
fn check_inplace_cap(ctx: &mut Ctx, op: &Op, want: Want, got: Got) {
    let fits = want.len <= want.cap;
    match got {
        Got::Panic(m) => {
            if want.len > CAP {
                ctx.rep.count("overflow.reported_by_panic");
            } else {
                ctx.violation("unexpected-panic", &op.descr(), &m, "Some or None")
            }
        }
        Got::Vec(None) => {
            if fits {
                ctx.violation("spurious-failure", &op.descr(), "None", &format!("Some({} limbs)", want.len));
            } else {
                ctx.rep.count("overflow.reported_none");
            }
        }
        Got::Vec(Some(v)) => {
            if !fits {
                ctx.violation("overflow-not-reported", &op.descr(), &format!("Some(len {})", v.len()), "None");
            } else if BigU::from_limbs64(&v) != want.value || v.len() != want.len {
                ctx.violation("wrong-result", &op.descr(), &hexl(&v), &want.value.to_hex());
            }
            if want.len == CAP {
                ctx.rep.count("result.exactly_at_capacity");
            }
        }
    }
}

/// Oracle-free execution for the slow interpreters (Miri): run the crate's operation only and
/// fold what it returned into a hash; the runner compares the hash with a native run of the
/// same seed (differential), while the interpreter watches the memory accesses.
fn exec_lean(op: &Op) -> u64 {
    ROUTE.with(|r| r.set(route_of(op)));
    let mut h = Hasher64::new();
    let fold = |h: &mut Hasher64, r: Option<Vec<u64>>| match r {
        None => {
            h.u64(0xdead);
        }
        Some(v) => {
            h.u64(v.len() as u64);
            for x in v {
                h.u64(x);
            }
        }
    };
    let inplace = |f: &dyn Fn(&mut VecType) -> Option<()>, x: &[u64]| -> Option<Vec<u64>> {
        let mut v = mk(x);
        f(&mut v).map(|_| v.to_vec())
    };
    let r = util::catch(|| match op {
        Op::SmallAdd(x, y) => inplace(&|v| bigint::small_add(v, *y as Limb), x),
        Op::SmallAddFrom(x, y, s) => inplace(&|v| bigint::small_add_from(v, *y as Limb, *s), x),
        Op::SmallMul(x, y) => inplace(&|v| bigint::small_mul(v, *y as Limb), x),
        Op::LargeAdd(x, y) => inplace(&|v| bigint::large_add(v, y), x),
        Op::LargeAddFrom(x, y, s) => inplace(&|v| bigint::large_add_from(v, y, *s), x),
        Op::LongMul(x, y) => bigint::long_mul(x, y).map(|v| v.to_vec()),
        Op::LargeMul(x, y) => inplace(&|v| bigint::large_mul(v, y), x),
        Op::MulAssign(x, y) => {
            let mut a = Bigint { data: mk(x) };
            let b = Bigint { data: mk(y) };
            a *= &b;
            Some(a.data.to_vec())
        }
        Op::Pow(x, b, e) => {
            let mut a = Bigint { data: mk(x) };
            a.pow(*b, *e).map(|_| a.data.to_vec())
        }
        Op::ShlBits(x, n) => inplace(&|v| bigint::shl_bits(v, *n), x),
        Op::ShlLimbs(x, n) => inplace(&|v| bigint::shl_limbs(v, *n), x),
        Op::Shl(x, n) => inplace(&|v| bigint::shl(v, *n), x),
        Op::Compare(x, y) => {
            let a = mk(x);
            let b = mk(y);
            Some(vec![bigint::compare(&a, &b) as i64 as u64, a.cmp(&b) as i64 as u64, (a == b) as u64])
        }
        Op::Normalize(x) => {
            let mut a = mk(x);
            let n = a.is_normalized();
            a.normalize();
            let mut v = a.to_vec();
            v.push(n as u64);
            Some(v)
        }
        Op::BitLength(x) => {
            let a = Bigint { data: mk(x) };
            Some(vec![a.bit_length() as u64, bigint::leading_zeros(&a.data) as u64])
        }
        Op::Hi64(x) => {
            let a = Bigint { data: mk(x) };
            let (v, n) = a.hi64();
            Some(vec![v, n as u64])
        }
        Op::FromU64(x) => Some(Bigint::from_u64(*x).data.to_vec()),
        Op::Scalar(x, y, c) => {
            let (s, o) = bigint::scalar_add(*x as Limb, *y as Limb);
            let (lo, hi) = bigint::scalar_mul(*x as Limb, *y as Limb, *c as Limb);
            Some(vec![s as u64, o as u64, lo as u64, hi as u64])
        }
    });
    match r {
        Ok(o) => fold(&mut h, o),
        Err(_) => {
            h.u64(0xbad);
        }
    }
    h.finish()
}

fn gen_op(rng: &Rng) -> Op {
    // operand sizes are aimed so that results land around the capacity often
    let maxlen = if HEAP && rng.chance(1, 10) { 90 } else { CAP };
    match rng.below(22) {
        0 => Op::SmallAdd(gen_limbs(rng, pick_len(rng, maxlen.min(CAP)), rng.chance(3, 4)), small_word(rng)),
        1 => {
            let n = pick_len(rng, maxlen.min(CAP));
            let x = gen_limbs(rng, n, rng.chance(3, 4));
            let s = rng.range(0, n as i64) as usize;
            Op::SmallAddFrom(x, small_word(rng), s)
        }
        2 | 3 => Op::SmallMul(gen_limbs(rng, pick_len(rng, maxlen.min(CAP)), rng.chance(3, 4)), small_word(rng)),
        4 => {
            let a = pick_len(rng, CAP);
            let b = pick_len(rng, CAP);
            Op::LargeAdd(gen_limbs(rng, a, true), gen_limbs(rng, b, rng.chance(3, 4)))
        }
        5 => {
            let a = pick_len(rng, CAP);
            let s = rng.range(0, a as i64) as usize;
            let b = pick_len(rng, (CAP + 1).saturating_sub(s).max(1));
            Op::LargeAddFrom(gen_limbs(rng, a, true), gen_limbs(rng, b, true), s)
        }
        6 | 7 | 8 => {
            // product sizes around the capacity: a + b in {.., 61, 62, 63, 64}
            let total = match rng.below(4) {
                0 => rng.range(60, 64) as usize,
                1 => rng.range(2, 20) as usize,
                _ => rng.range(2, 66) as usize,
            };
            let a = rng.range(1, (total - 1).min(CAP) as i64) as usize;
            let b = (total - a).clamp(1, CAP);
            let x = gen_limbs(rng, a, true);
            let y = gen_limbs(rng, b, true);
            match rng.below(3) {
                0 => Op::LongMul(x, y),
                1 => Op::LargeMul(x, y),
                _ => Op::MulAssign(x, y),
            }
        }
        9 | 10 | 11 => {
            let base = *rng.pick(&[5u32, 5, 10, 10, 2]);
            let e = match rng.below(8) {
                0 => *rng.pick(&[0u32, 1, 26, 27, 28, 53, 54, 55, 134, 135, 136, 161, 162, 163, 269, 270, 271, 404, 405, 406]),
                1 => rng.range(0, 1700) as u32,
                2 => rng.range(1050, 1150) as u32,
                3 => rng.range(1650, 1720) as u32,
                _ => rng.range(0, 400) as u32,
            };
            // operand small enough that some results fit and some just do not
            let room_bits = 62 * 64 - (e as f64 * if base == 2 { 1.0 } else if base == 5 { 2.3219281 } else { 3.3219281 }) as i64;
            let n = if room_bits <= 64 { 1 } else { pick_len(rng, ((room_bits / 64) as usize + 1).min(CAP)) };
            Op::Pow(gen_limbs(rng, n, true), base, e)
        }
        12 => Op::ShlBits(gen_limbs(rng, pick_len(rng, CAP), rng.chance(3, 4)), rng.range(1, 63) as usize),
        13 => {
            let n = pick_len(rng, CAP);
            let mut by = match rng.below(4) {
                0 => (CAP - n).max(1),
                1 => CAP - n + 1,
                _ => rng.range(1, 64) as usize,
            };
            if rng.chance(1, 12) {
                // far beyond the capacity, but small after a narrowing cast to 8 / 16 / 32 bits: must be refused
                by = (1usize << *rng.pick(&[8u32, 16, 16, 32])) * rng.range(1, 3) as usize + rng.range(0, (CAP - n) as i64 + 1) as usize;
            }
            let x = if rng.chance(1, 20) { vec![] } else { gen_limbs(rng, n, rng.chance(3, 4)) };
            Op::ShlLimbs(x, by)
        }
        14 | 15 => {
            let n = pick_len(rng, CAP);
            let room = (CAP - n) * 64;
            let by = match rng.below(5) {
                0 => rng.range(0, 127) as usize,
                1 => (room as i64 + rng.range(-70, 70)).max(0) as usize,
                2 => 64 * rng.range(0, 62) as usize,
                _ => rng.range(0, (room + 130) as i64) as usize,
            };
            let by = if rng.chance(1, 12) { 64 * ((1usize << *rng.pick(&[8u32, 16, 16, 32])) * rng.range(1, 3) as usize + rng.range(0, (CAP - n) as i64 + 1) as usize) + rng.range(0, 63) as usize } else { by };
            Op::Shl(gen_limbs(rng, n, true), by)
        }
        16 => {
            let a = pick_len(rng, CAP);
            let x = gen_limbs(rng, a, true);
            let y = match rng.below(4) {
                0 => x.clone(),
                1 => {
                    let mut y = x.clone();
                    let i = rng.below(a as u64) as usize;
                    y[i] = y[i].wrapping_add(if rng.chance(1, 2) { 1 } else { u64::MAX });
                    if y[a - 1] == 0 {
                        y[a - 1] = 1;
                    }
                    y
                }
                _ => gen_limbs(rng, if rng.chance(1, 2) { a } else { pick_len(rng, CAP) }, true),
            };
            Op::Compare(x, y)
        }
        17 => {
            let n = rng.range(0, CAP as i64) as usize;
            let mut x = gen_limbs(rng, n, false);
            // runs of trailing zero limbs, all-zero vectors
            if n > 0 && rng.chance(1, 4) {
                let k = rng.range(1, n as i64) as usize;
                for i in n - k..n {
                    x[i] = 0;
                }
            }
            Op::Normalize(x)
        }
        18 => Op::BitLength(gen_limbs(rng, rng.range(0, CAP as i64) as usize, true)),
        19 | 20 => {
            let n = rng.range(0, CAP as i64) as usize;
            let mut x = gen_limbs(rng, n, true);
            // sticky bit at a chosen depth: everything below the top 64 bits zero except one bit
            if n >= 2 && rng.chance(1, 2) {
                let top = x[n - 1];
                for v in x.iter_mut() {
                    *v = 0;
                }
                x[n - 1] = top;
                if rng.chance(3, 4) {
                    let depth = rng.below(n as u64 - 1) as usize;
                    x[depth] = 1u64 << rng.below(64);
                } else if rng.chance(1, 2) {
                    // the only set bit sits just below the 64-bit window
                    let lz = top.leading_zeros();
                    if lz > 0 {
                        x[n - 2] = 1u64 << (64 - lz - 1).min(63);
                    }
                }
            }
            Op::Hi64(x)
        }
        _ => {
            if rng.chance(1, 2) {
                Op::FromU64(small_word(rng))
            } else {
                Op::Scalar(small_word(rng), small_word(rng), small_word(rng))
            }
        }
    }
}

// ------------------------------------------------------------------------------------------ C13

/// Executable model of the vector: a plain sequence with a capacity.
struct Model {
    v: Vec<u64>,
    cap: usize,
}

fn history(ctx: &mut Ctx, rng: &Rng, nops: usize, max_heap_len: usize) {
    let cap = if HEAP { usize::MAX } else { CAP };
    let soft_cap = if HEAP { max_heap_len } else { CAP + 6 };
    let mut m = Model { v: Vec::new(), cap };
    let mut trace: Vec<String> = Vec::new();
    let mut hh = Hasher64::new();
    let r = util::catch(|| {
        let mut x = VecType::new();
        // a second vector: destination / source of clone_from, partner of the comparison operators
        let mut y2 = VecType::new();
        let mut my: Vec<u64> = Vec::new();
        let mut fail: Option<(String, String, String)> = None;
        let mut counts: Vec<(String, u64)> = Vec::new();
        let mut bump = |k: String| {
            if let Some(e) = counts.iter_mut().find(|e| e.0 == k) {
                e.1 += 1;
            } else {
                counts.push((k, 1));
            }
        };
        // bias phases: fill towards capacity, hover there, drain
        let mut phase = rng.below(3);
        for step in 0..nops {
            if rng.chance(1, 40) {
                phase = rng.below(3);
            }
            let len = m.v.len();
            let which = match phase {
                0 => *rng.pick(&[0u64, 0, 0, 2, 2, 3, 5, 6, 7, 1, 12]),          // grow
                1 => *rng.pick(&[0u64, 1, 2, 3, 3, 4, 5, 6, 7, 8, 9, 10, 11, 12]), // hover
                _ => *rng.pick(&[1u64, 1, 1, 3, 4, 8, 9, 0, 10, 11, 12]),       // drain
            };
            let before = m.v.clone();
            let lenclass = if len == 0 { "len0" } else if len + 1 == CAP { "len61" } else if len == CAP { "len62" } else if len > CAP { "len>62" } else { "mid" };
            match which {
                0 => {
                    let val = small_word(rng);
                    let r = x.try_push(val as Limb);
                    let ok = m.v.len() < m.cap;
                    if ok {
                        m.v.push(val);
                    }
                    trace.push(format!("push({:x})->{}", val, r.is_some()));
                    bump(format!("push.{}.{}", lenclass, if r.is_some() { "ok" } else { "full" }));
                    if r.is_some() != ok {
                        fail = Some(("push-outcome".into(), format!("{:?}", r), format!("ok={}", ok)));
                    }
                }
                1 => {
                    let r = x.pop();
                    let w = m.v.pop();
                    trace.push(format!("pop->{:x?}", r));
                    bump(format!("pop.{}.{}", lenclass, if w.is_some() { "some" } else { "empty" }));
                    if r.map(|v| v as u64) != w {
                        fail = Some(("pop-value".into(), format!("{:x?}", r), format!("{:x?}", w)));
                    }
                }
                2 => {
                    // extend: sometimes exactly to the capacity, sometimes one beyond
                    let room = CAP.saturating_sub(len);
                    let mut k = match rng.below(5) {
                        0 => room,
                        1 => room + 1,
                        2 => 0,
                        _ => rng.range(0, 12) as usize,
                    };
                    if !HEAP && rng.chance(1, 150) {
                        // a slice far longer than the vector can hold, with a length that looks small modulo 2^8 / 2^16
                        k = (1usize << *rng.pick(&[8u32, 16, 16])) * rng.range(1, 3) as usize + rng.range(0, room as i64 + 2) as usize;
                        bump("extend.absurd_request".into());
                    }
                    if len + k > soft_cap && (HEAP || k <= 255) {
                        continue;
                    }
                    // (an absurdly long slice is all zeros: cheap to build, also under the interpreter)
                    let ext: Vec<u64> = if k > 255 { vec![0u64; k] } else { (0..k).map(|_| small_word(rng)).collect() };
                    let r = if k > 255 { x.try_extend(&vec![0 as Limb; k]) } else { x.try_extend(&ext.iter().map(|&v| v as Limb).collect::<Vec<Limb>>()) };
                    let ok = len + k <= m.cap;
                    if ok {
                        m.v.extend_from_slice(&ext);
                    }
                    trace.push(format!("extend({})->{}", k, r.is_some()));
                    bump(format!("extend.{}.{}", lenclass, if r.is_some() { "ok" } else { "full" }));
                    if r.is_some() != ok {
                        fail = Some(("extend-outcome".into(), format!("{:?}", r), format!("ok={}", ok)));
                    }
                }
                3 => {
                    let mut target = match rng.below(6) {
                        0 => CAP,
                        1 => CAP + 1,
                        2 => 0,
                        3 => len,
                        4 => len.saturating_sub(rng.range(1, 5) as usize),
                        _ => rng.range(0, (CAP + 2) as i64) as usize,
                    };
                    if !HEAP && rng.chance(1, 6) {
                        // absurd requests (the fixed-capacity vector must refuse them and change nothing): lengths that look
                        // small after a narrowing cast - old length + k * 2^p + r with r within / just beyond the room left -,
                        // powers of two +- r, and the top of the usize range
                        target = huge_len(rng, len);
                        bump("resize.absurd_request".into());
                    }
                    if target > soft_cap && (HEAP || target <= CAP + 6) {
                        continue;
                    }
                    let val = small_word(rng);
                    let r = x.try_resize(target, val as Limb);
                    let ok = target <= m.cap;
                    if ok {
                        m.v.resize(target, val);
                    }
                    trace.push(format!("resize({},{:x})->{}", target, val, r.is_some()));
                    bump(format!("resize.{}.{}", if target > len { "grow" } else if target < len { "shrink" } else { "same" }, if r.is_some() { "ok" } else { "full" }));
                    if r.is_some() != ok {
                        fail = Some(("resize-outcome".into(), format!("{:?}", r), format!("ok={}", ok)));
                    }
                }
                4 => {
                    if HEAP && cfg!(debug_assertions) && len > CAP {
                        continue; // HeapVec::set_len debug-asserts len <= 62 (scoping, see DESIGN F4)
                    }
                    x.normalize();
                    while m.v.last() == Some(&0) {
                        m.v.pop();
                    }
                    trace.push("normalize".into());
                    bump(format!("normalize.{}", if m.v.len() != before.len() { "shrunk" } else { "noop" }));
                }
                5 => {
                    let y = small_word(rng);
                    let r = x.add_small(y as Limb);
                    let value = BigU::from_limbs64(&m.v).add_u64(y);
                    let nl = m.v.len().max(limbs64(&value));
                    trace.push(format!("add_small({:x})->{}", y, r.is_some()));
                    if nl <= m.cap {
                        let mut nv = value.to_limbs64();
                        nv.resize(nl, 0);
                        m.v = nv;
                        bump("add_small.ok".into());
                        if r.is_none() {
                            fail = Some(("add_small-outcome".into(), "None".into(), "Some".into()));
                        }
                    } else {
                        bump("add_small.full".into());
                        if r.is_some() {
                            fail = Some(("add_small-outcome".into(), "Some".into(), "None".into()));
                        }
                        // contents after a failed carry are unspecified: resynchronise the model
                        m.v = x.to_vec().iter().map(|&v| v as u64).collect();
                    }
                }
                6 => {
                    let y = small_word(rng);
                    let r = x.mul_small(y as Limb);
                    let value = BigU::from_limbs64(&m.v).mul_u64(y);
                    let nl = m.v.len().max(limbs64(&value));
                    trace.push(format!("mul_small({:x})->{}", y, r.is_some()));
                    if nl <= m.cap {
                        let mut nv = value.to_limbs64();
                        nv.resize(nl, 0);
                        m.v = nv;
                        bump("mul_small.ok".into());
                        if r.is_none() {
                            fail = Some(("mul_small-outcome".into(), "None".into(), "Some".into()));
                        }
                    } else {
                        bump("mul_small.full".into());
                        if r.is_some() {
                            fail = Some(("mul_small-outcome".into(), "Some".into(), "None".into()));
                        }
                        m.v = x.to_vec().iter().map(|&v| v as u64).collect();
                    }
                }
                7 => {
                    // construct: from_u64 / try_from / new
                    match rng.below(3) {
                        0 => {
                            let v = small_word(rng);
                            x = VecType::from_u64(v as Limb as u64);
                            m.v = if v == 0 { vec![] } else { vec![v] };
                            trace.push(format!("from_u64({:x})", v));
                            bump("construct.from_u64".into());
                        }
                        1 => {
                            let k = match rng.below(4) {
                                0 => CAP,
                                1 => CAP + 1,
                                _ => rng.range(0, CAP as i64) as usize,
                            };
                            if k > soft_cap {
                                continue;
                            }
                            let src: Vec<u64> = (0..k).map(|_| small_word(rng)).collect();
                            let r = VecType::try_from(&src.iter().map(|&v| v as Limb).collect::<Vec<Limb>>());
                            let ok = k <= m.cap;
                            trace.push(format!("try_from({})->{}", k, r.is_some()));
                            bump(format!("construct.try_from.{}", if r.is_some() { "ok" } else { "full" }));
                            if r.is_some() != ok {
                                fail = Some(("try_from-outcome".into(), format!("{}", r.is_some()), format!("{}", ok)));
                            }
                            if let Some(nx) = r {
                                x = nx;
                                m.v = src;
                            }
                        }
                        _ => {
                            x = VecType::new();
                            m.v.clear();
                            trace.push("new".into());
                            bump("construct.new".into());
                        }
                    }
                }
                8 => {
                    // clone and compare with the original
                    let y = x.clone();
                    if !(y == x) || y.cmp(&x) != Ordering::Equal || y.len() != x.len() {
                        fail = Some(("clone-differs".into(), hexl(&y.to_vec().iter().map(|&v| v as u64).collect::<Vec<u64>>()), hexl(&m.v)));
                    }
                    trace.push("clone==".into());
                    bump("clone.compare".into());
                    if rng.chance(1, 2) {
                        // carry on with the copy (on the heap back-end its allocation is exactly as long as its contents)
                        x = y;
                        trace.push("continue-on-clone".into());
                        bump("clone.continued_on_copy".into());
                    }
                }
                9 => {
                    // ordering against another vector (both normalized -> numeric order)
                    let k = if rng.chance(1, 2) { m.v.len().min(CAP) } else { rng.range(0, 8) as usize };
                    let mut other = gen_limbs(rng, k, true);
                    if rng.chance(1, 3) && !m.v.is_empty() && m.v.len() <= CAP {
                        other = m.v.clone();
                        let i = rng.below(other.len() as u64) as usize;
                        other[i] ^= 1u64 << rng.below(64);
                    }
                    let normalized = m.v.last() != Some(&0) && other.last() != Some(&0);
                    if other.len() <= CAP {
                        let y = mk(&other);
                        let got = x.cmp(&y);
                        let goteq = x == y;
                        if normalized {
                            let want = BigU::from_limbs64(&m.v).cmp(&BigU::from_limbs64(&other));
                            bump(format!("order.{:?}", want));
                            if got != want || goteq != (want == Ordering::Equal) {
                                fail = Some(("order".into(), format!("{:?} eq={}", got, goteq), format!("{:?}", want)));
                            }
                        }
                        trace.push(format!("cmp(len {})->{:?}", other.len(), got));
                    }
                }
                10 => {
                    // hi64 on the current (normalized) contents
                    if m.v.last() != Some(&0) {
                        let xv = BigU::from_limbs64(&m.v);
                        let bl = xv.bit_length();
                        let want = if bl == 0 {
                            (0u64, false)
                        } else if bl <= 64 {
                            (xv.to_u64().unwrap() << (64 - bl), false)
                        } else {
                            (xv.shr(bl - 64).to_u64().unwrap(), xv.any_below(bl - 64))
                        };
                        let got = x.hi64();
                        bump("hi64".into());
                        if got != want {
                            fail = Some(("hi64".into(), format!("{:x?}", got), format!("{:x?}", want)));
                        }
                        trace.push("hi64".into());
                    }
                }
                12 => {
                    // the rest of the trait surface, against a second vector that has its own history (longer, shorter or equal):
                    // Clone::clone_from in both directions, swap, and every comparison operator
                    match rng.below(5) {
                        0 => {
                            y2.clone_from(&x);
                            my = m.v.clone();
                            trace.push("y.clone_from(x)".into());
                            bump(format!("clone_from.into_{}", if my.len() < y2.len() { "?" } else { "second" }));
                        }
                        1 => {
                            let longer = my.len() > m.v.len();
                            x.clone_from(&y2);
                            m.v = my.clone();
                            trace.push("x.clone_from(y)".into());
                            bump(format!("clone_from.into_first.{}", if longer { "grows" } else { "shrinks_or_same" }));
                        }
                        2 => {
                            std::mem::swap(&mut x, &mut y2);
                            std::mem::swap(&mut m.v, &mut my);
                            trace.push("swap(x,y)".into());
                            bump("swap".into());
                        }
                        3 => {
                            // grow / shrink the second vector a little so that the two lengths differ in both directions
                            if rng.chance(1, 2) && my.len() < CAP {
                                let v = small_word(rng);
                                if y2.try_push(v as Limb).is_some() {
                                    my.push(v);
                                }
                            } else if y2.pop().is_some() {
                                my.pop();
                            }
                            trace.push("y.push/pop".into());
                            bump("second.push_pop".into());
                        }
                        _ => {
                            let yv: Vec<u64> = y2.iter().map(|&v| v as u64).collect();
                            if yv != my {
                                fail = Some(("second-vector-contents".into(), hexl(&yv), hexl(&my)));
                            }
                            let seq_eq = m.v == my;
                            if (x == y2) != seq_eq || (x != y2) == seq_eq {
                                fail = Some(("eq/ne".into(), format!("== {} != {}", x == y2, x != y2), format!("sequence equality {}", seq_eq)));
                            }
                            if m.v.last() != Some(&0) && my.last() != Some(&0) {
                                let want = BigU::from_limbs64(&m.v).cmp(&BigU::from_limbs64(&my));
                                let got = (x.cmp(&y2), x.partial_cmp(&y2), x < y2, x <= y2, x > y2, x >= y2);
                                let exp = (want, Some(want), want == Ordering::Less, want != Ordering::Greater, want == Ordering::Greater, want != Ordering::Less);
                                if got != exp {
                                    fail = Some(("comparison-operators".into(), format!("{:?}", got), format!("{:?}", exp)));
                                }
                                bump(format!("operators.{:?}", want));
                            }
                            trace.push("compare(x,y)".into());
                        }
                    }
                }
                _ => {
                    // write through DerefMut, read back
                    if !m.v.is_empty() {
                        let i = rng.below(m.v.len() as u64) as usize;
                        let val = small_word(rng);
                        x[i] = val as Limb;
                        m.v[i] = val;
                        trace.push(format!("[{}]={:x}", i, val));
                        bump("index_write".into());
                    }
                }
            }
            // after every operation: the visible state equals the model
            let vis: Vec<u64> = x.iter().map(|&v| v as u64).collect();
            if fail.is_none() {
                if x.len() != m.v.len() {
                    fail = Some(("length".into(), format!("{}", x.len()), format!("{}", m.v.len())));
                } else if vis != m.v {
                    fail = Some(("contents".into(), hexl(&vis), hexl(&m.v)));
                } else if x.is_empty() != m.v.is_empty() {
                    fail = Some(("is_empty".into(), format!("{}", x.is_empty()), format!("{}", m.v.is_empty())));
                } else if !HEAP && (x.capacity() != CAP || x.len() > x.capacity()) {
                    fail = Some(("capacity".into(), format!("len {} cap {}", x.len(), x.capacity()), format!("cap {}", CAP)));
                } else if HEAP && x.len() > x.capacity() {
                    fail = Some(("capacity".into(), format!("len {} cap {}", x.len(), x.capacity()), "len <= capacity".into()));
                }
            }
            // failed push/extend/resize must leave everything unchanged (model was not changed either)
            if fail.is_some() {
                return (Some((step, fail.unwrap())), counts, m.v.len());
            }
        }
        (None, counts, m.v.len())
    });
    ctx.rep.evals += 1;
    for t in &trace {
        hh.bytes(t.as_bytes());
    }
    ctx.rep.distinct(hh.finish());
    ctx.rep.add("history.operations", trace.len() as u64);
    match r {
        Ok((fail, counts, _)) => {
            for (k, n) in counts {
                ctx.rep.add(&format!("h.{}", k), n);
            }
            if let Some((step, (what, got, want))) = fail {
                let tr = trace.join(" ");
                ctx.violation(&format!("history-{}", what), &format!("history seed-derived, step {}: {}", step, &tr[tr.len().saturating_sub(1500)..]), &got, &want);
            }
        }
        Err(msg) => {
            let tr = trace.join(" ");
            ctx.violation("history-panic", &format!("history: {}", &tr[tr.len().saturating_sub(1500)..]), &format!("panic at {}: {}", util::last_panic_loc(), msg), "no panic on the safe API");
        }
    }
    ctx.rep.sample(|| json_str(&trace.iter().take(40).cloned().collect::<Vec<_>>().join(" ")));
}

/// An absurd length request: looks small after a narrowing cast to 8 / 16 / 32 bits, or sits at a power of two or at the top
/// of the usize range.
fn huge_len(rng: &Rng, len: usize) -> usize {
    let room = CAP.saturating_sub(len);
    let r = rng.range(0, room as i64 + 2) as usize;
    match rng.below(6) {
        0 | 1 => len.wrapping_add((1usize << *rng.pick(&[8u32, 16, 16, 32])).wrapping_mul(rng.range(1, 4) as usize)).wrapping_add(r),
        2 => (1usize << *rng.pick(&[8u32, 16, 16, 32, 63])).wrapping_add(r),
        3 => (1usize << *rng.pick(&[8u32, 16, 16, 32, 63])).wrapping_sub(r),
        4 => usize::MAX - r,
        _ => (rng.next() as usize) | (1 << 16),
    }
}

/// Small-scope exhaustive: every sequence of `depth` operations over a 13-letter alphabet of capacity-relevant
/// operations, from start states at and next to the capacity, checked against the model after every step.
fn sweep_capacity_histories(ctx: &mut Ctx, depth: usize, shard: (u64, u64)) {
    let cap = if HEAP { usize::MAX } else { CAP };
    const NOPS: u64 = 13;
    let total = NOPS.pow(depth as u32);
    let starts: [(usize, u64); 8] = [(0, 0), (1, u64::MAX), (60, u64::MAX), (61, u64::MAX), (62, u64::MAX), (61, 0), (62, 0), (62, 1)];
    for (si, &(len0, fill)) in starts.iter().enumerate() {
        if HEAP && cfg!(debug_assertions) && len0 > CAP {
            continue;
        }
        let mut code = shard.0;
        while code < total {
            let mut ops = Vec::with_capacity(depth);
            let mut c = code;
            for _ in 0..depth {
                ops.push((c % NOPS) as u8);
                c /= NOPS;
            }
            code += shard.1;
            let r = util::catch(|| -> Option<String> {
                let init: Vec<u64> = {
                    let mut v = vec![fill; len0];
                    if len0 > 0 && fill == 0 {
                        v[0] = 7; // value 7 with zero limbs above: not normalized
                    }
                    v
                };
                let mut x = mk(&init);
                let mut m: Vec<u64> = init.clone();
                for (step, &op) in ops.iter().enumerate() {
                    let len = m.len();
                    match op {
                        0 | 1 => {
                            let val = if op == 0 { u64::MAX } else { 0 };
                            let r = x.try_push(val as Limb);
                            let ok = len < cap;
                            if ok {
                                m.push(val);
                            }
                            if r.is_some() != ok {
                                return Some(format!("step {} push: outcome {:?}, expected ok={}", step, r, ok));
                            }
                        }
                        2 => {
                            if x.pop().map(|v| v as u64) != m.pop() {
                                return Some(format!("step {} pop value", step));
                            }
                        }
                        3 | 4 => {
                            let k = if op == 3 { 1 } else { 2 };
                            let ext = vec![5u64; k];
                            let r = x.try_extend(&ext.iter().map(|&v| v as Limb).collect::<Vec<Limb>>());
                            let ok = len + k <= cap;
                            if ok {
                                m.extend_from_slice(&ext);
                            }
                            if r.is_some() != ok {
                                return Some(format!("step {} extend({}): outcome {:?}, expected ok={}", step, k, r, ok));
                            }
                        }
                        5 | 6 | 7 | 8 => {
                            let target = [0usize, 61, 62, 63][(op - 5) as usize];
                            if HEAP && cfg!(debug_assertions) && target > CAP {
                                continue;
                            }
                            let r = x.try_resize(target, 9 as Limb);
                            let ok = target <= cap;
                            if ok {
                                m.resize(target, 9);
                            }
                            if r.is_some() != ok {
                                return Some(format!("step {} resize({}): outcome {:?}, expected ok={}", step, target, r, ok));
                            }
                        }
                        9 => {
                            if !(HEAP && cfg!(debug_assertions) && len > CAP) {
                                x.normalize();
                                while m.last() == Some(&0) {
                                    m.pop();
                                }
                            }
                        }
                        10 | 11 => {
                            // add_small(1) / mul_small(MAX): carries ripple through all-ones limbs up to the capacity
                            let (r, value) = if op == 10 { (x.add_small(1), BigU::from_limbs64(&m).add_u64(1)) } else { (x.mul_small(u64::MAX as Limb), BigU::from_limbs64(&m).mul_u64(u64::MAX)) };
                            let nl = m.len().max(limbs64(&value));
                            if nl <= cap {
                                let mut nv = value.to_limbs64();
                                nv.resize(nl, 0);
                                m = nv;
                                if r.is_none() {
                                    return Some(format!("step {} small arithmetic reported failure although {} limbs fit", step, nl));
                                }
                            } else {
                                if r.is_some() {
                                    return Some(format!("step {} small arithmetic succeeded although the result needs {} limbs", step, nl));
                                }
                                m = x.to_vec().iter().map(|&v| v as u64).collect();
                            }
                        }
                        _ => {
                            let y = x.clone();
                            if !(y == x) || y.len() != x.len() {
                                return Some(format!("step {} clone differs", step));
                            }
                        }
                    }
                    let vis: Vec<u64> = x.iter().map(|&v| v as u64).collect();
                    if vis != m || x.len() != m.len() || x.is_empty() != m.is_empty() || (!HEAP && x.len() > CAP) {
                        return Some(format!("step {} state: visible len {} contents {} ; model len {} contents {}", step, vis.len(), hexl(&vis[vis.len().saturating_sub(3)..]), m.len(), hexl(&m[m.len().saturating_sub(3)..])));
                    }
                }
                None
            });
            ctx.rep.evals += 1;
            ctx.rep.count("sweep.capacity_histories");
            ctx.rep.add("history.operations", depth as u64);
            let descr = || format!("scripted history: start len {} fill {:x}, ops {:?} (0/1 push MAX/0, 2 pop, 3/4 extend 1/2, 5-8 resize 0/61/62/63, 9 normalize, 10 add_small(1), 11 mul_small(MAX), 12 clone)", len0, fill, ops);
            match r {
                Ok(None) => {}
                Ok(Some(msg)) => ctx.violation("history-scripted", &descr(), &msg, "the sequence model"),
                Err(msg) => ctx.violation("history-panic", &descr(), &format!("panic at {}: {}", util::last_panic_loc(), msg), "no panic on the safe API"),
            }
            let _ = si;
        }
    }
}

fn main() {
    let args = Args::parse();
    util::quiet_panics();
    let prop = args.str("prop", "C12");
    let seed = args.u64("seed", 1);
    let shard = args.shard();
    let rep = Report::new(&prop, &args);
    let mut ja: Vec<String> = vec!["\"--max-evals\"".into(), "\"@EVALS@\"".into(), "\"--history-ops\"".into(), format!("\"{}\"", args.u64("history-ops", 400))];
    if args.has("sweep-depth") {
        ja.push("\"--sweep-depth\"".into());
        ja.push(format!("\"{}\"", args.u64("sweep-depth", 0)));
    }
    let shard_replay = format!(
        "\"shard_replay\":{{\"idx\":{},\"shards\":{},\"seed\":{},\"budget\":3000,\"job_args\":[{}],\"miriflags\":\"\"}}",
        shard.0,
        shard.1,
        seed,
        ja.join(",")
    );
    let mut ctx = Ctx { rep, replay_dir: args.str("replay-dir", "/verif/replays"), prop: prop.clone(), shard_replay };
    ctx.rep.extra.insert("config".into(), json_str(config_name()));
    ctx.rep.extra.insert("profile".into(), json_str(profile_name()));
    ctx.rep.extra.insert("backend".into(), json_str(if HEAP { "HeapVec" } else { "StackVec" }));
    if let Some(o) = args.get("op") {
        if o.starts_with("history") {
            println!("REPLAY histories are replayed by seed: re-run the check with the same VERIF_SEED");
        } else {
            let op = Op::parse(o);
            run_op(&mut ctx, &op);
            println!("REPLAY {} -> {}", op.name(), if ctx.rep.nviol == 0 { "held" } else { "VIOLATED" });
        }
        ctx.rep.finish();
        return;
    }
    let mut rng = Rng::new(seed).fork(if prop == "C12" { 0xC12 } else { 0xC13 }).fork(shard.0 + 1);
    let max = args.u64("max-evals", u64::MAX);
    let mut i = 0u64;
    let lean = args.has("lean");
    if lean && prop == "C12" {
        // no reference arithmetic, no string formatting: only the crate's code runs
        let mut acc = Hasher64::new();
        while ctx.rep.evals < max {
            if ctx.rep.out_of_time() {
                break;
            }
            let op = gen_op(&rng);
            ctx.rep.evals += 1;
            ctx.rep.count(&format!("op.{}", op.name()));
            acc.u64(exec_lean(&op));
        }
        ctx.rep.extra.insert("result_hash".into(), format!("\"{:016x}\"", acc.finish()));
        ctx.rep.extra.insert("lean".into(), "true".into());
        ctx.rep.finish();
        return;
    }
    if prop == "C12" {
        // every pow exponent residue once (sharded): 5^e for e in 0..=1720 on a one-limb operand
        if !args.has("no-sweep") {
            for e in 0..=1720u32 {
                if e as u64 % shard.1 == shard.0 {
                    for base in [5u32, 10, 2] {
                        run_op(&mut ctx, &Op::Pow(vec![1 + (e as u64 % 7)], base, e));
                    }
                }
            }
            // bounded-exhaustive: every vector of 1..3 limbs over the boundary alphabet, as both operands of the
            // multi-limb operations (carry chains that random limbs practically never produce)
            let alpha: [u64; 6] = [0, 1, 2, u64::MAX, u64::MAX - 1, 1 << 63];
            let mut vecs: Vec<Vec<u64>> = Vec::new();
            for a in alpha {
                vecs.push(vec![a]);
                for b in alpha {
                    vecs.push(vec![a, b]);
                    for c in alpha {
                        vecs.push(vec![a, b, c]);
                    }
                }
            }
            let norm: Vec<&Vec<u64>> = vecs.iter().filter(|v| *v.last().unwrap() != 0).collect();
            let mut k = 0u64;
            for x in &norm {
                for y in &norm {
                    k += 1;
                    if k % shard.1 != shard.0 {
                        continue;
                    }
                    run_op(&mut ctx, &Op::LongMul((*x).clone(), (*y).clone()));
                    run_op(&mut ctx, &Op::LargeAdd((*x).clone(), (*y).clone()));
                    if k % 7 == 0 {
                        run_op(&mut ctx, &Op::LargeMul((*x).clone(), (*y).clone()));
                        run_op(&mut ctx, &Op::LargeAddFrom((*x).clone(), (*y).clone(), (k % x.len() as u64) as usize));
                        run_op(&mut ctx, &Op::Compare((*x).clone(), (*y).clone()));
                    }
                    ctx.rep.count("sweep.boundary_limb_pairs");
                }
                for a in alpha {
                    run_op(&mut ctx, &Op::SmallMul((*x).clone(), a));
                    run_op(&mut ctx, &Op::SmallAdd((*x).clone(), a));
                }
                run_op(&mut ctx, &Op::Hi64((*x).clone()));
            }
            for n in 0..=130usize {
                if n as u64 % shard.1 == shard.0 {
                    run_op(&mut ctx, &Op::Shl(vec![u64::MAX, 1], n));
                    if n >= 1 && n < 64 {
                        run_op(&mut ctx, &Op::ShlBits(vec![u64::MAX; 3], n));
                    }
                }
            }
        }
        while ctx.rep.evals < max {
            if i % 32 == 0 && ctx.rep.out_of_time() {
                break;
            }
            i += 1;
            let op = gen_op(&rng);
            let d = op.descr();
            let mut h = Hasher64::new();
            h.bytes(d.as_bytes());
            ctx.rep.distinct(h.finish());
            run_op(&mut ctx, &op);
            ctx.rep.sample(|| json_str(&d.chars().take(200).collect::<String>()));
        }
        for k in ["op.small_add", "op.small_mul", "op.large_add_from", "op.long_mul", "op.large_mul", "op.mul_assign", "op.pow", "op.shl", "op.shl_bits", "op.shl_limbs", "op.compare", "op.normalize", "op.hi64", "op.bit_length", "result.exactly_at_capacity", "hi64.truncated_true", "normalize.removed_zero_limbs"] {
            ctx.rep.require(k);
        }
        if HEAP {
            ctx.rep.require("heap.grew_beyond_62");
        } else {
            ctx.rep.require("overflow.reported_none");
            ctx.rep.require("result.one_limb_beyond_capacity");
        }
    } else {
        let nops_max = args.u64("history-ops", 400) as usize;
        let max_heap_len = if cfg!(debug_assertions) { CAP } else { 200 };
        let depth = args.u64("sweep-depth", 0) as usize;
        if depth > 0 {
            sweep_capacity_histories(&mut ctx, depth, shard);
            ctx.rep.extra.insert("scripted_history_depth".into(), format!("{}", depth));
        }
        while ctx.rep.evals < max {
            if ctx.rep.out_of_time() {
                break;
            }
            let n = rng.range(20, nops_max as i64) as usize;
            history(&mut ctx, &rng, n, max_heap_len);
        }
        for k in ["h.push.mid.ok", "h.pop.len0.empty", "h.extend.mid.ok", "h.resize.grow.ok", "h.resize.shrink.ok", "h.normalize.shrunk", "h.add_small.ok", "h.mul_small.ok", "h.clone.compare", "h.hi64", "h.order.Less", "h.order.Greater"] {
            ctx.rep.require(k);
        }
        if !HEAP {
            for k in ["h.push.len62.full", "h.push.len61.ok", "h.resize.grow.full", "h.construct.try_from.full"] {
                ctx.rep.require(k);
            }
        }
    }
    ctx.rep.finish();
}
