//! C17: Float field helpers vs the IEEE-754 encoding (f32: all 2^32 patterns).
//! C18: the shift-and-round primitive vs exact integer rounding; bit-mask helpers.

use minimal_lexical::extended_float::{extended_to_float, ExtendedFloat};
use minimal_lexical::mask::{lower_n_halfway, lower_n_mask, nth_bit};
use minimal_lexical::rounding::{round, round_down, round_nearest_tie_even};
use minimal_lexical::slow::{b, bh};
use minimal_lexical::Float;
use mlverif::bigref::BigU;
use mlverif::oracle::{self, Dec, Fmt, F32, F64};
use mlverif::rng::Rng;
use mlverif::util::{self, json_str, Args, Report};
use mlverif::{bits_hex, config_name, profile_name};

struct Ctx {
    rep: Report,
    replay_dir: String,
    prop: String,
    classes: [u64; 5],
}

impl Ctx {
    fn violation(&mut self, what: &str, key: &str, observed: &str, expected: &str) {
        let sig = format!("{}:{}", what, key);
        let file = format!("{}/{}-{}-{}-{}.json", self.replay_dir, self.prop, config_name(), profile_name(), key.replace(':', "_"));
        let body = format!(
            "{{\"property\":{},\"engine\":\"eng_float\",\"config\":{},\"profile\":{},\"what\":{},\"case\":{},\"observed\":{},\"expected\":{},\"replay_args\":[\"--one\",{}]}}\n",
            json_str(&self.prop),
            json_str(config_name()),
            json_str(profile_name()),
            json_str(what),
            json_str(key),
            json_str(observed),
            json_str(expected),
            json_str(key)
        );
        let _ = std::fs::create_dir_all(&self.replay_dir);
        if self.rep.violations.len() < 40 {
            // replay files only for the witnesses that are reported (the rest are counted)
            let _ = std::fs::write(&file, body);
        }
        let detail = format!("\"case\":{},\"observed\":{},\"expected\":{}", json_str(key), json_str(observed), json_str(expected));
        self.rep.violation(&sig, what, &file, &detail);
    }
}

/// 2^k as an exactly representable float, k within the format's range (subnormals included).
fn pow2_f64(k: i32) -> f64 {
    if k >= -1022 {
        f64::from_bits(((k + 1023) as u64) << 52)
    } else {
        f64::from_bits(1u64 << (k + 1074))
    }
}
fn pow2_f32(k: i32) -> f32 {
    if k >= -126 {
        f32::from_bits(((k + 127) as u32) << 23)
    } else {
        f32::from_bits(1u32 << (k + 149))
    }
}

/// IEEE-754 fields straight from the standard (no crate constants).
fn fields(fmt: Fmt, bits: u64) -> (bool, u64, u64) {
    let sign = bits >> (fmt.mant_bits + fmt.exp_bits) & 1 == 1;
    let e = (bits >> fmt.mant_bits) & ((1u64 << fmt.exp_bits) - 1);
    let f = bits & ((1u64 << fmt.mant_bits) - 1);
    (sign, e, f)
}

macro_rules! check_float {
    ($ctx:expr, $fmt:expr, $F:ty, $bits:expr, $pow2:ident, $raw:ty) => {{
        let ctx: &mut Ctx = $ctx;
        let fmt: Fmt = $fmt;
        let bits: u64 = $bits;
        ctx.rep.evals += 1;
        let (_sign, e, f) = fields(fmt, bits);
        let x: $F = <$F as Float>::from_bits(bits);
        let emax = (1u64 << fmt.exp_bits) - 1;
        macro_rules! key {
            () => {
                &format!("{}:{}", fmt.name, bits_hex(fmt, bits))
            };
        }
        // lossless bit conversion
        if Float::to_bits(x) != bits {
            ctx.violation("bits-roundtrip", key!(), &format!("{:x}", Float::to_bits(x)), &format!("{:x}", bits));
        }
        let want_den = e == 0;
        if x.is_denormal() != want_den {
            ctx.violation("is_denormal", key!(), &format!("{}", x.is_denormal()), &format!("{}", want_den));
        }
        let want_m = if e == 0 { f } else { f | (1u64 << fmt.mant_bits) };
        let want_e: i32 = if e == 0 { 1 - fmt.bias() as i32 - fmt.mant_bits as i32 } else { e as i32 - fmt.bias() as i32 - fmt.mant_bits as i32 };
        let class: usize = if e == emax {
            if f == 0 {
                0
            } else {
                1
            }
        } else if e == 0 {
            if f == 0 {
                2
            } else {
                3
            }
        } else {
            4
        };
        ctx.classes[class] += 1;
        if x.mantissa() != want_m {
            ctx.violation("mantissa", key!(), &format!("{:x}", x.mantissa()), &format!("{:x}", want_m));
        }
        if x.exponent() != want_e {
            ctx.violation("exponent", key!(), &format!("{}", x.exponent()), &format!("{}", want_e));
        }
        if e != emax {
            // physical referee: mantissa * 2^exponent == |x| with exact hardware scalings
            let m = x.mantissa();
            let k = x.exponent();
            let mf = m as $F; // exact: m < 2^(p)
            let k1 = k / 2;
            let k2 = k - k1;
            let v = mf * $pow2(k1) * $pow2(k2);
            let mag: $F = <$F>::from_bits((bits & !(fmt.sign_bit())) as $raw);
            if v.to_bits() != mag.to_bits() {
                ctx.violation("magnitude", key!(), &format!("{:e}", v), &format!("{:e}", mag));
            }
            // b / bh
            let fb = b(x);
            let fbh = bh(x);
            if fb.mant != m || fb.exp != k || fbh.mant != 2 * m + 1 || fbh.exp != k - 1 {
                ctx.violation("b-bh", key!(), &format!("b=({:x},{}) bh=({:x},{})", fb.mant, fb.exp, fbh.mant, fbh.exp), &format!("b=({:x},{}) bh=({:x},{})", m, k, 2 * m + 1, k - 1));
            }
        }
        // packing (biased exponent, fraction) gives the float with exactly those fields (sign clear)
        let packed: $F = extended_to_float::<$F>(ExtendedFloat { mant: f, exp: e as i32 });
        let want_packed = bits & !fmt.sign_bit();
        if Float::to_bits(packed) != want_packed {
            ctx.violation("extended_to_float", key!(), &format!("{:x}", Float::to_bits(packed)), &format!("{:x}", want_packed));
        }
    }};
}

fn float_one(ctx: &mut Ctx, fmt: Fmt, bits: u64) {
    if fmt.mant_bits == 52 {
        check_float!(ctx, fmt, f64, bits, pow2_f64, u64);
    } else {
        check_float!(ctx, fmt, f32, bits, pow2_f32, u32);
    }
}

fn mode_c17(ctx: &mut Ctx, args: &Args, rng: &Rng, shard: (u64, u64)) {
    // f32: all 2^32 patterns, split evenly over the shards
    let total: u64 = 1 << 32;
    let per = total / shard.1;
    let lo = shard.0 * per;
    let hi = if shard.0 + 1 == shard.1 { total } else { lo + per };
    let stride = args.u64("stride32", 1);
    let mut bits = lo;
    let mut completed = true;
    let f32_deadline = ctx.rep.start + (ctx.rep.deadline - ctx.rep.start).mul_f64(0.6);
    while bits < hi {
        if bits & 0xffff == 0 && std::time::Instant::now() >= f32_deadline {
            completed = false;
            break;
        }
        float_one(ctx, F32, bits);
        bits += stride;
    }
    ctx.rep.extra.insert("f32_all_patterns_in_shard_range".into(), format!("{}", completed && stride == 1));
    ctx.rep.add("f32.patterns", if completed { (hi - lo) / stride } else { (bits - lo) / stride });
    // f64: every biased exponent x structured fractions x both signs (sharded), then random
    let fm = F64.frac_mask();
    let mut e = shard.0;
    while e <= 2047 {
        let mut fr: Vec<u64> = vec![0, 1, 2, 1 << 51, fm - 1, fm, 1 << 26, fm >> 1];
        for _ in 0..64 {
            fr.push(rng.next() & fm);
        }
        // every single fraction bit, every run of ones from the bottom and from the top, every pair of bits, and the
        // complements: a slip that needs one particular fraction pattern together with a particular exponent
        for i in 0..52u32 {
            fr.push(1 << i);
            fr.push(fm ^ (1 << i));
            fr.push((1u64 << i) - 1);
            fr.push(fm ^ ((1u64 << i) - 1));
            for j in 0..i {
                fr.push(1 << i | 1 << j);
            }
        }
        for f in fr {
            for s in [0u64, 1] {
                float_one(ctx, F64, s << 63 | e << 52 | f);
                ctx.rep.count("f64.structured");
            }
        }
        e += shard.1;
    }
    let mut i = 0u64;
    let mut nrand = 0u64;
    loop {
        if i & 0xfff == 0 && ctx.rep.out_of_time() {
            break;
        }
        i += 1;
        float_one(ctx, F64, rng.next());
        nrand += 1;
    }
    ctx.rep.add("f64.random", nrand);
    for bits in [lo, lo + (hi - lo) / 2, hi - 1] {
        let (sg, e, f) = fields(F32, bits);
        let x = f32::from_bits(bits as u32);
        ctx.rep.samples.push(format!("{{\"fmt\":\"f32\",\"bits\":\"{:08x}\",\"sign\":{},\"biased_exponent\":{},\"fraction\":{},\"mantissa()\":{},\"exponent()\":{},\"is_denormal()\":{}}}", bits, sg, e, f, x.mantissa(), x.exponent(), x.is_denormal()));
    }
    // from_u64
    for _ in 0..20000 {
        let u = rng.structured_u64();
        if <f64 as Float>::from_u64(u).to_bits() != (u as f64).to_bits() || <f32 as Float>::from_u64(u).to_bits() != (u as f32).to_bits() {
            ctx.violation("from_u64", &format!("u64:{:x}", u), "differs", "u as float");
        }
    }
    for (i, k) in ["class.inf", "class.nan", "class.zero", "class.subnormal", "class.normal"].iter().enumerate() {
        let n = ctx.classes[i];
        ctx.rep.add(k, n);
    }
    // distinctness: every enumerated pattern is distinct by construction; random f64 collisions are negligible but not counted
    let n32 = *ctx.rep.counters.get("f32.patterns").unwrap_or(&0);
    ctx.rep.extra.insert("distinct_by_enumeration".into(), format!("{}", n32 + *ctx.rep.counters.get("f64.structured").unwrap_or(&0)));
    for k in ["class.zero", "class.subnormal", "class.normal", "class.inf", "class.nan", "f64.random", "f64.structured"] {
        ctx.rep.require(k);
    }
}

// ------------------------------------------------------------------------------------------ C18

/// Exact reference: round m * 2^(e - bias') to the format; `mode`: 0 nearest-even, 1 nearest with
/// "true value is slightly above" (sticky), 2 truncate. Returns the IEEE bits.
fn ref_round(fmt: Fmt, m: u64, e: i32, mode: u8) -> u64 {
    let mb = fmt.mant_bits as i32;
    let bias_ext = fmt.bias() as i32 + mb; // the crate's EXPONENT_BIAS
    let k = e - bias_ext; // value = m * 2^k, m in [2^63, 2^64)
    let e2 = 63 + k; // unbiased exponent of the leading bit
    let emin = 1 - fmt.bias() as i32;
    let q_exp = e2.max(emin) - mb; // exponent of the quantum (ulp)
    let shift = q_exp - k; // bits of m below the quantum
    debug_assert!(shift >= 11);
    let (mut q, rem, half): (u128, u128, u128) = if shift >= 128 {
        (0, 1, 2) // far below half the quantum
    } else {
        let mm = m as u128;
        (mm >> shift, mm & ((1u128 << shift) - 1), 1u128 << (shift - 1))
    };
    let up = match mode {
        0 => rem > half || (rem == half && q & 1 == 1),
        1 => rem > half || rem == half,
        _ => false,
    };
    if up {
        q += 1;
    }
    let hidden = 1u128 << mb;
    let mut eb: i64; // biased exponent field
    if e2 < emin {
        // subnormal quantum: q < 2^mb, or == 2^mb after rounding up (smallest normal) - same encoding
        return q as u64;
    } else {
        eb = (e2 + fmt.bias() as i32) as i64;
        if q >= hidden << 1 {
            q >>= 1;
            eb += 1;
        }
    }
    let emax_field = (1i64 << fmt.exp_bits) - 1;
    if eb >= emax_field {
        return fmt.inf_bits();
    }
    ((eb as u64) << fmt.mant_bits) | (q as u64 & fmt.frac_mask())
}

fn crate_round(fmt: Fmt, m: u64, e: i32, mode: u8) -> Result<u64, String> {
    util::catch(|| {
        let mut fp = ExtendedFloat { mant: m, exp: e };
        macro_rules! go {
            ($F:ty) => {{
                match mode {
                    0 => round::<$F, _>(&mut fp, |f, s| round_nearest_tie_even(f, s, |is_odd, is_halfway, is_above| is_above || (is_odd && is_halfway))),
                    1 => round::<$F, _>(&mut fp, |f, s| round_nearest_tie_even(f, s, |is_odd, is_halfway, is_above| is_above || (is_halfway && true) || (is_odd && is_halfway))),
                    _ => round::<$F, _>(&mut fp, round_down),
                }
                let v: $F = extended_to_float::<$F>(fp);
                Float::to_bits(v)
            }};
        }
        if fmt.mant_bits == 52 {
            go!(f64)
        } else {
            go!(f32)
        }
    })
}

fn round_one(ctx: &mut Ctx, fmt: Fmt, m: u64, e: i32, mode: u8, tag: &str) {
    ctx.rep.evals += 1;
    let key = format!("{}:{:x}:{}:{}", fmt.name, m, e, mode);
    let want = ref_round(fmt, m, e, mode);
    // mode 2 (truncate) is judged below 2^(emax+1) only: above, round() saturates to inf by design
    let bias_ext = fmt.bias() as i32 + fmt.mant_bits as i32;
    let e2 = 63 + e - bias_ext;
    if mode == 2 && e2 > fmt.bias() as i32 {
        ctx.rep.count("truncate.above_range_not_judged");
        let _ = crate_round(fmt, m, e, mode);
        return;
    }
    let got = match crate_round(fmt, m, e, mode) {
        Ok(g) => g,
        Err(msg) => {
            ctx.violation("panic", &key, &format!("panic at {}: {}", util::last_panic_loc(), msg), &bits_hex(fmt, want));
            return;
        }
    };
    ctx.rep.count(tag);
    ctx.rep.count(["mode.nearest_even", "mode.nearest_sticky", "mode.truncate"][mode as usize]);
    let mb = fmt.mant_bits as i32;
    let shift_sub = -e + 1;
    if e <= -(64 - mb - 1) {
        ctx.rep.count("class.subnormal_shift");
        ctx.rep.max("max.subnormal_shift", shift_sub as i64);
        if want == fmt.hidden() {
            ctx.rep.count("class.promoted_to_smallest_normal");
        }
    }
    if want == fmt.inf_bits() {
        ctx.rep.count("class.inf");
    }
    if want == 0 {
        ctx.rep.count("class.zero");
    }
    if want & fmt.frac_mask() == 0 && want != 0 && want != fmt.inf_bits() && m != 1u64 << 63 && mode != 2 {
        ctx.rep.count("class.carry_to_next_binade_or_power_of_two");
    }
    ctx.rep.distinct(m ^ (e as u64) << 48 ^ (mode as u64) << 62 ^ fmt.mant_bits as u64);
    ctx.rep.sample(|| format!("{{\"fmt\":{},\"significand\":\"{:x}\",\"biased_exponent\":{},\"mode\":{},\"bits\":{}}}", json_str(fmt.name), m, e, mode, json_str(&bits_hex(fmt, got))));
    if got != want {
        ctx.violation("wrong-rounding", &key, &bits_hex(fmt, got), &bits_hex(fmt, want));
        return;
    }
    // cross-check the reference itself with the decimal oracle on a sample (nearest-even only)
    if mode == 0 && ctx.rep.evals % 257 == 0 {
        let d = Dec::from_scaled(&BigU::from_u64(m), (e - bias_ext) as i64);
        ctx.rep.count("reference.cross_checked_by_decimal_oracle");
        if !oracle::check(&d, fmt, want) {
            ctx.rep.inconclusive(&format!("ORACLE-DISAGREEMENT: integer reference and decimal oracle disagree on {}", key));
        }
    }
}

fn gen_sig(rng: &Rng, fmt: Fmt) -> u64 {
    // top p bits | guard region | low bits, each from a small set of patterns
    let p = fmt.mant_bits + 1;
    let g = 64 - p; // bits below the kept ones (normal case)
    let top = match rng.below(4) {
        0 => 1u64 << (p - 1),
        1 => (1u64 << p) - 1,
        2 => (1u64 << (p - 1)) | 1,
        _ => (rng.next() >> (64 - p)) | (1u64 << (p - 1)),
    };
    let half = 1u64 << (g - 1);
    let low = match rng.below(8) {
        0 => 0,
        1 => 1,
        2 => half - 1,
        3 => half,
        4 => half + 1,
        5 => (1u64 << g) - 1,
        _ => rng.next() & ((1u64 << g) - 1),
    };
    (top << g) | low
}

fn mode_c18(ctx: &mut Ctx, _args: &Args, rng: &Rng, shard: (u64, u64)) {
    // masks: all widths (exhaustive)
    if shard.0 == 0 {
        for n in 0..=64u64 {
            let wm = if n == 64 { u64::MAX } else { (1u64 << n) - 1 };
            let wh = if n == 0 { 0 } else { 1u64 << (n - 1) };
            let r = util::catch(|| (lower_n_mask(n), lower_n_halfway(n)));
            match r {
                Ok((a, b2)) => {
                    if a != wm || b2 != wh {
                        ctx.violation("mask", &format!("mask:{}", n), &format!("{:x} {:x}", a, b2), &format!("{:x} {:x}", wm, wh));
                    }
                }
                Err(m) => ctx.violation("mask-panic", &format!("mask:{}", n), &m, "value"),
            }
            if n < 64 {
                match util::catch(|| nth_bit(n)) {
                    Ok(v) if v == 1u64 << n => {}
                    Ok(v) => ctx.violation("mask", &format!("nth_bit:{}", n), &format!("{:x}", v), &format!("{:x}", 1u64 << n)),
                    Err(m) => ctx.violation("mask-panic", &format!("nth_bit:{}", n), &m, "value"),
                }
            }
            ctx.rep.count("mask.widths");
            ctx.rep.evals += 1;
        }
    }
    // every exponent x every (top, guard) pattern class, sharded by exponent
    for (fmt, elo, ehi) in [(F64, -63i32, 2100i32), (F32, -63, 320)] {
        let mut e = elo + shard.0 as i32;
        while e <= ehi {
            for _ in 0..24 {
                let m = gen_sig(rng, fmt);
                for mode in 0..3u8 {
                    round_one(ctx, fmt, m, e, mode, "sweep.all_exponents");
                }
            }
            // every single bit below the top one, every "low k bits zero / low k bits one" pattern and every bit next to a
            // 8/16/32/48-bit word boundary: a slip that needs one particular interior bit (a narrowed mask, a stale word)
            for i in 0..63u32 {
                let mut pats = vec![1u64 << 63 | 1u64 << i, u64::MAX << i, 1u64 << 63 | ((1u64 << i) - 1), 1u64 << 63 | 1u64 << i | 1];
                if i >= 1 {
                    pats.push(1u64 << 63 | 3u64 << (i - 1));
                }
                for m in pats {
                    for mode in 0..3u8 {
                        round_one(ctx, fmt, m | 1 << 63, e, mode, "sweep.single_bits");
                    }
                }
            }
            // subnormal shifts: the halfway pattern for this particular shift
            let shift = -e + 1;
            if shift >= 1 && shift <= 64 && e <= -(64 - fmt.mant_bits as i32 - 1) {
                let half: u128 = 1u128 << (shift - 1);
                for delta in [-1i64, 0, 1] {
                    for hi in [0u64, 1, 3] {
                        let base = if shift >= 64 { 0 } else { ((1u64 << 63) >> shift << shift) | (hi.checked_shl(shift as u32).unwrap_or(0)) };
                        let m = ((base as u128 | half) as i128 + delta as i128) as u128;
                        if m >> 63 == 1 && m < (1u128 << 64) {
                            for mode in 0..3u8 {
                                round_one(ctx, fmt, m as u64, e, mode, "sweep.subnormal_halfway");
                            }
                        }
                    }
                }
            }
            ctx.rep.count(if fmt.mant_bits == 52 { "exponents.f64" } else { "exponents.f32" });
            e += shard.1 as i32;
        }
    }
    // random pairs
    let mut i = 0u64;
    loop {
        if i & 0x3ff == 0 && ctx.rep.out_of_time() {
            break;
        }
        i += 1;
        let fmt = if i % 2 == 0 { F64 } else { F32 };
        let m = if rng.chance(1, 2) { gen_sig(rng, fmt) } else { rng.next() | 1 << 63 };
        let e = if fmt.mant_bits == 52 { rng.range(-63, 2100) } else { rng.range(-63, 320) } as i32;
        round_one(ctx, fmt, m, e, rng.below(3) as u8, "random");
    }
    for k in ["mode.nearest_even", "mode.nearest_sticky", "mode.truncate", "class.subnormal_shift", "class.promoted_to_smallest_normal", "class.inf", "class.zero", "class.carry_to_next_binade_or_power_of_two", "sweep.subnormal_halfway", "reference.cross_checked_by_decimal_oracle"] {
        ctx.rep.require(k);
    }
}

fn main() {
    let args = Args::parse();
    util::quiet_panics();
    let prop = args.str("prop", "C17");
    let seed = args.u64("seed", 1);
    let shard = args.shard();
    let rep = Report::new(&prop, &args);
    let mut ctx = Ctx { rep, replay_dir: args.str("replay-dir", "/verif/replays"), prop: prop.clone(), classes: [0; 5] };
    ctx.rep.extra.insert("config".into(), json_str(config_name()));
    ctx.rep.extra.insert("profile".into(), json_str(profile_name()));
    let rng = Rng::new(seed).fork(if prop == "C17" { 0xC17 } else { 0xC18 }).fork(shard.0 + 1);
    if let Some(k) = args.get("one") {
        let p: Vec<&str> = k.split(':').collect();
        let fmt = mlverif::fmt_of(p[0]);
        if prop == "C17" {
            float_one(&mut ctx, fmt, u64::from_str_radix(p[1], 16).unwrap());
        } else {
            round_one(&mut ctx, fmt, u64::from_str_radix(p[1], 16).unwrap(), p[2].parse().unwrap(), p[3].parse().unwrap(), "replay");
        }
        println!("REPLAY {} -> {}", k, if ctx.rep.nviol == 0 { "held" } else { "VIOLATED" });
        ctx.rep.finish();
        return;
    }
    match prop.as_str() {
        "C17" => mode_c17(&mut ctx, &args, &rng, shard),
        "C18" => mode_c18(&mut ctx, &args, &rng, shard),
        _ => panic!("eng_float: unknown property"),
    }
    ctx.rep.finish();
}
