//! Engine for the properties that are decided through the public API only:
//! C01 C02 C03 C04 C05 C06 C07 C09 C10 (C15/C16 live in their own binaries).

use mlverif::gen::{self, Case};
use mlverif::oracle::{self, Fmt, F32, F64};
use mlverif::rng::{Hasher64, Rng};
use mlverif::sink;
use mlverif::util::{self, json_str, Args, Report};
use mlverif::{bits_hex, config_name, parse_case, profile_name};
use std::collections::HashSet;

struct Ctx {
    prop: String,
    rep: Report,
    replay_dir: String,
    corpus64: Vec<(u64, i32)>,
    corpus32: Vec<(u64, i32)>,
    corpus64s: Vec<(u64, i32)>,
    corpus32s: Vec<(u64, i32)>,
    corpus_limb: Vec<(Vec<u8>, i32)>,
    binades64: HashSet<u32>,
    binades32: HashSet<u32>,
    log_boundary: u64,
    log_other: u64,
    announce: bool,
}

/// The crate's own digit cut-off (public constant of the Float trait), so that the "sticky digit observed"
/// coverage class follows the code under test instead of a number copied into the harness.
fn max_digits(fmt: Fmt) -> u64 {
    if fmt.mant_bits == 52 {
        <f64 as minimal_lexical::Float>::MAX_DIGITS as u64
    } else {
        <f32 as minimal_lexical::Float>::MAX_DIGITS as u64
    }
}

impl Ctx {
    /// Write a replay file and record the violation.
    fn violation(&mut self, fmt: Fmt, c: &Case, what: &str, observed: &str, expected: &str, path: &sink::Path) {
        let sig = format!("{}:{}:{:016x}", what, fmt.name, c.hash());
        let file = format!("{}/{}-{}-{}-{:016x}.json", self.replay_dir, self.prop, config_name(), profile_name(), c.hash());
        let body = format!(
            "{{\"property\":{},\"engine\":\"eng_parse\",\"config\":{},\"profile\":{},\"fmt\":{},\"what\":{},\"input\":{},\"tag\":{},\"observed\":{},\"expected\":{},\"tier\":{},\"hooks\":{},\"case_key\":{}}}\n",
            json_str(&self.prop),
            json_str(config_name()),
            json_str(profile_name()),
            json_str(fmt.name),
            json_str(what),
            json_str(&c.show()),
            json_str(c.tag),
            json_str(observed),
            json_str(expected),
            json_str(path.tier()),
            json_str(&format!("{:?}", path)),
            json_str(&c.key())
        );
        let _ = std::fs::create_dir_all(&self.replay_dir);
        if self.rep.violations.len() < 40 {
            // replay files only for the witnesses that are reported (the rest are counted)
            let _ = std::fs::write(&file, body);
        }
        let detail = format!(
            "\"input\":{},\"fmt\":{},\"observed\":{},\"expected\":{},\"tier\":{},\"tag\":{}",
            json_str(&c.show()),
            json_str(fmt.name),
            json_str(observed),
            json_str(expected),
            json_str(path.tier()),
            json_str(c.tag)
        );
        self.rep.violation(&sig, what, &file, &detail);
    }

    /// Violation that is a relation between two inputs (C09, C10): replay file holds both keys.
    fn pair_violation(&mut self, fmt: Fmt, a: &Case, b: &Case, what: &str, text: &str, bits_a: u64, bits_b: u64) {
        let mut h = Hasher64::new();
        h.u64(a.hash()).u64(b.hash());
        let hh = h.finish();
        let sig = format!("{}:{}:{:016x}", what, fmt.name, hh);
        let file = format!("{}/{}-{}-{}-{:016x}.json", self.replay_dir, self.prop, config_name(), profile_name(), hh);
        let body = format!(
            "{{\"property\":{},\"engine\":\"eng_parse\",\"config\":{},\"profile\":{},\"fmt\":{},\"what\":{},\"text\":{},\"observed\":[{},{}],\"pair_keys\":[{},{}]}}\n",
            json_str(&self.prop),
            json_str(config_name()),
            json_str(profile_name()),
            json_str(fmt.name),
            json_str(what),
            json_str(text),
            json_str(&bits_hex(fmt, bits_a)),
            json_str(&bits_hex(fmt, bits_b)),
            json_str(&a.key()),
            json_str(&b.key())
        );
        let _ = std::fs::create_dir_all(&self.replay_dir);
        if self.rep.violations.len() < 40 {
            // replay files only for the witnesses that are reported (the rest are counted)
            let _ = std::fs::write(&file, body);
        }
        let detail = format!("\"fmt\":{},\"pair\":{}", json_str(fmt.name), json_str(text));
        self.rep.violation(&sig, what, &file, &detail);
    }

    /// Run one case through the crate, with hooks and panic monitor.
    fn run(&mut self, fmt: Fmt, c: &Case) -> (Result<u64, String>, sink::Path) {
        if self.announce {
            // crash isolation: name the case before running it (unbuffered stderr)
            if c.ndigits() <= 20_000 {
                eprintln!("CASE {} {}", fmt.name, c.key());
            } else {
                let f = format!("{}/announce-{}-{:016x}.case", self.replay_dir, std::process::id(), c.hash());
                let _ = std::fs::write(&f, c.key());
                eprintln!("CASE {} @{}", fmt.name, f);
            }
        }
        sink::reset();
        let r = util::catch(|| parse_case(fmt, c));
        let p = sink::path();
        self.rep.evals += 1;
        (r, p)
    }

    fn classify(&mut self, fmt: Fmt, c: &Case, bits: u64, p: &sink::Path) {
        let rep = &mut self.rep;
        rep.count(&format!("tag.{}", c.tag));
        rep.count(&format!("path.{}", p.tier()));
        if p.moderate && !p.declined {
            rep.count("path.moderate_definite");
        }
        if p.declined {
            rep.count("path.moderate_declined");
        }
        if p.many_digits {
            rep.count("path.many_digits");
        }
        if p.lemire_second {
            rep.count("path.lemire_second_product");
        }
        if p.lemire_tie {
            rep.count("path.lemire_tie_branch");
        }
        if p.lemire_subnormal {
            rep.count("path.lemire_subnormal_branch");
        }
        if p.lemire_w1_differs {
            rep.count("path.lemire_w_w1_disagree");
        }
        if p.lemire_fallback {
            rep.count("path.lemire_lo_max_fallback");
        }
        if p.neg_limbs_differ {
            rep.count("path.slow_neg_limb_boundary_between_digits_and_halfway");
        }
        if p.bellero {
            rep.count("path.bellerophon");
        }
        if p.large_mul {
            rep.count("path.large_pow5_step");
        }
        if p.slow_digits == max_digits(fmt) + 1 {
            rep.count("path.sticky_digit");
        }
        if p.slow_neg && p.slow_ord == 0 {
            rep.count("path.slow_neg_exact_tie");
        }
        if p.slow_pos && p.pos_truncated {
            rep.count("path.slow_pos_truncated");
        }
        if p.round_denormal {
            rep.count("path.round_denormal");
            rep.max("max.denormal_shift", p.round_shift);
        }
        if p.limbs > 0 {
            rep.max("max.limbs", p.limbs as i64);
        }
        let n = c.ndigits();
        rep.max("max.digits", n as i64);
        rep.max("max.exp", c.exp as i64);
        rep.min("min.exp", c.exp as i64);
        if n > 19 {
            rep.count("digits.gt19");
        }
        if n as u64 > max_digits(fmt) {
            rep.count("digits.gt_max_digits");
        }
        if n >= 10_000 {
            rep.count("digits.ge10k");
        }
        if bits == fmt.inf_bits() {
            rep.count("class.inf");
        } else if bits == 0 {
            rep.count("class.zero");
        } else if bits < fmt.hidden() {
            rep.count("class.subnormal");
        } else {
            rep.count("class.normal");
        }
        let be = (bits >> fmt.mant_bits) as u32;
        if fmt.mant_bits == 52 {
            self.binades64.insert(be);
        } else {
            self.binades32.insert(be);
        }
    }

    /// Oracle verdict on one case. Returns true if held.
    fn judge(&mut self, fmt: Fmt, c: &Case) -> bool {
        let (r, p) = self.run(fmt, c);
        let bits = match r {
            Ok(b) => b,
            Err(msg) => {
                let loc = util::last_panic_loc();
                self.violation(fmt, c, "panic", &format!("panic at {}: {}", loc, msg), "a value", &p);
                return false;
            }
        };
        self.classify(fmt, c, bits, &p);
        let d = c.dec();
        let nontrivial = !p.fast || p.disguised;
        if nontrivial {
            self.rep.distinct(c.hash() ^ fmt.mant_bits as u64);
        }
        // sampled event log for the offline (Python) re-checker
        if c.ndigits() <= 2000 {
            let boundary = p.declined || p.lemire_second || p.lemire_tie || p.many_digits;
            let take = if boundary {
                self.log_boundary += 1;
                self.log_boundary <= 1500 || self.log_boundary % 64 == 0
            } else {
                self.log_other += 1;
                self.log_other % 97 == 0 && self.log_other / 97 <= 1500
            };
            if take && self.rep.log.is_some() {
                let line = format!(
                    "{} {} {} {} {}",
                    fmt.name,
                    if c.int.is_empty() { "-".to_string() } else { String::from_utf8_lossy(&c.int).to_string() },
                    if c.frac.is_empty() { "-".to_string() } else { String::from_utf8_lossy(&c.frac).to_string() },
                    c.exp,
                    bits_hex(fmt, bits)
                );
                self.rep.log_line(&line);
                self.rep.count("log.sampled");
            }
        }
        self.rep.sample(|| format!("{{\"fmt\":{},\"case\":{},\"bits\":{},\"tier\":{}}}", json_str(fmt.name), c.json(), json_str(&bits_hex(fmt, bits)), json_str(p.tier())));
        if oracle::check(&d, fmt, bits) {
            return true;
        }
        // Disagreement: ask the solver and the std parser before calling it a violation.
        let want = oracle::round(&d, fmt);
        let stdv = oracle::std_parse(fmt, &c.int, &c.frac, c.exp as i64);
        if want == bits {
            self.rep.inconclusive(&format!("ORACLE-DISAGREEMENT check!=round on {} {}", fmt.name, c.show()));
            return true;
        }
        if let Some(s) = stdv {
            if s != want {
                self.rep.inconclusive(&format!("ORACLE-DISAGREEMENT oracle={} std={} crate={} on {} {}", bits_hex(fmt, want), bits_hex(fmt, s), bits_hex(fmt, bits), fmt.name, c.show()));
                return true;
            }
        }
        let what = if fmt.is_nan(bits) || bits & fmt.sign_bit() != 0 { "nan-or-negative" } else { "wrong-value" };
        self.violation(fmt, c, what, &bits_hex(fmt, bits), &bits_hex(fmt, want), &p);
        false
    }

    fn corpus_case(&mut self, rng: &mut Rng, fmt: Fmt) -> Option<Case> {
        // short-significand hard cases (pyoracle/cfshort.py) two times in five, the 19-digit ones otherwise
        let vs = if fmt.mant_bits == 52 { &self.corpus64s } else { &self.corpus32s };
        if !vs.is_empty() && rng.chance(2, 5) {
            let (w, q) = vs[rng.below(vs.len() as u64) as usize];
            let w = match rng.below(6) {
                0 => w + 1,
                1 => (w - 1).max(1),
                _ => w,
            };
            return gen::place_random(rng, w.to_string().as_bytes(), q as i64, "CFSHORT");
        }
        let v = if fmt.mant_bits == 52 { &self.corpus64 } else { &self.corpus32 };
        if v.is_empty() {
            return None;
        }
        let (w, q) = v[rng.below(v.len() as u64) as usize];
        // +-1 neighbours as well
        let w = match rng.below(4) {
            0 => w.wrapping_add(1).max(1),
            1 => w.wrapping_sub(1).max(1),
            _ => w,
        };
        let sig = w.to_string().into_bytes();
        // sometimes add digits beyond (truncated variants)
        if rng.chance(1, 4) {
            let mut s2 = sig.clone();
            let k = rng.range(1, 30) as usize;
            // a tail of nines puts the value just below the next significand (with w - 1 as the base: just below the hard
            // case itself, so that the truncated route has to decide [w-1, w) with w the worst case)
            let nines = rng.chance(1, 3);
            for _ in 0..k {
                s2.push(if nines { b'9' } else if rng.chance(1, 2) { b'0' } else { rng.digit() });
            }
            return gen::place_random(rng, &s2, q as i64 - k as i64, if nines { "CFHARD+9s" } else { "CFHARD+" });
        }
        gen::place_random(rng, &sig, q as i64, "CFHARD")
    }
}

/// Generator mix per property.
fn next_case(ctx: &mut Ctx, rng: &mut Rng, fmt: Fmt) -> Case {
    let prop = ctx.prop.clone();
    loop {
        let r = rng.below(100);
        let c = match prop.as_str() {
            "C06" => {
                // long digit strings: boundary variants that extend the expansion
                if r < 80 {
                    let bits = gen::pick_float(rng, fmt);
                    let mid = rng.chance(5, 6) || bits == 0;
                    let which = *rng.pick(&[1u64, 2, 2, 2, 3, 3, 3, 4, 5]);
                    let (c, _) = gen::g1_for(rng, fmt, bits, mid, which);
                    c
                } else if r < 90 {
                    match ctx.corpus_case(rng, fmt) {
                        Some(c) => c,
                        None => continue,
                    }
                } else if r < 94 {
                    gen::g1x(rng, fmt)
                } else if r < 97 && fmt.mant_bits == 52 {
                    match gen::g_limb_boundary(rng) {
                        Some(c) => c,
                        None => continue,
                    }
                } else {
                    gen::g9(rng, fmt)
                }
            }
            "C07" => {
                if r < 78 {
                    gen::g3(rng, fmt)
                } else if r < 86 {
                    // the number-theoretic hard cases of the moderate stage (and the lo == MAX entries) that lie at the
                    // ends of the range: subnormal / just-normal results and the top decades
                    let lim = if fmt.mant_bits == 52 { 305 } else { 36 };
                    let mut pick = None;
                    for _ in 0..48 {
                        if let Some(c) = ctx.corpus_case(rng, fmt) {
                            let d = c.dec();
                            if !d.is_zero() && (d.point - 1).abs() >= lim {
                                pick = Some(c);
                                break;
                            }
                        }
                    }
                    match pick {
                        Some(mut c) => {
                            c.tag = "CFHARD_RANGE_END";
                            c
                        }
                        None => continue,
                    }
                } else if r < 93 {
                    gen::g1x(rng, fmt)
                } else {
                    gen::g1(rng, fmt)
                }
            }
            _ => {
                if r < 45 {
                    gen::g1(rng, fmt)
                } else if r < 55 {
                    gen::g3(rng, fmt)
                } else if r < 65 {
                    gen::g5(rng, fmt)
                } else if r < 75 {
                    gen::g_seam(rng, fmt)
                } else if r < 85 {
                    match ctx.corpus_case(rng, fmt) {
                        Some(c) => c,
                        None => continue,
                    }
                } else if r < 89 {
                    gen::g1x(rng, fmt)
                } else if r < 92 && fmt.mant_bits == 52 {
                    match gen::g_limb_boundary(rng) {
                        Some(c) => c,
                        None => continue,
                    }
                } else if r < 94 && fmt.mant_bits == 52 {
                    match gen::limb_struct_case(rng, &ctx.corpus_limb) {
                        Some(c) => c,
                        None => continue,
                    }
                } else {
                    gen::g9(rng, fmt)
                }
            }
        };
        if prop == "C06" && c.sig_digits() < 20 {
            continue;
        }
        return c;
    }
}

/// C02: enumeration of the f32 rounding boundaries: for every finite non-negative f32 `b` (or every
/// `stride`-th), the exact decimal expansion of the midpoint between b and its upper neighbour is
/// parsed as TIE (-> even of the two), ABOVE (expansion followed by a 1 -> upper) and BELOW
/// (expansion*10 - 1 -> lower). Expectations are certain by construction; the oracle is consulted on
/// a sample and on every mismatch.
fn mode_f32_midpoints(ctx: &mut Ctx, stride: u64, shard: (u64, u64), frac_of_budget: f64) -> bool {
    let fmt = F32;
    let total: u64 = 0x7f80_0000; // b in [0, MAX]
    let n = (total + stride - 1) / stride;
    let per = (n + shard.1 - 1) / shard.1;
    let (k0, k1) = (shard.0 * per, ((shard.0 + 1) * per).min(n));
    let stop = ctx.rep.start + (ctx.rep.deadline - ctx.rep.start).mul_f64(frac_of_budget);
    let mut k = k0;
    let mut local_evals = 0u64;
    let mut paths = [0u64; 6];
    while k < k1 {
        if k & 0x3ff == 0 && std::time::Instant::now() >= stop {
            ctx.rep.evals += local_evals;
            flush_paths(ctx, &paths);
            return false;
        }
        let b = k * stride;
        k += 1;
        let d = oracle::upper_mid(fmt, b);
        let (sg0, e10_0) = d.digits_exp();
        // integers with trailing decimal zeros: write the zeros out, so that an appended digit is an epsilon
        let mut padded: Vec<u8>;
        let (sg, e10): (&[u8], i64) = if e10_0 > 0 {
            padded = sg0.to_vec();
            padded.resize(sg0.len() + e10_0 as usize, b'0');
            (&padded, 0)
        } else {
            (sg0, e10_0)
        };
        let (m, _) = fmt.decode(b);
        let upper = if b == fmt.max_finite_bits() { fmt.inf_bits() } else { b + 1 };
        let even = if m & 1 == 0 { b } else { upper };
        let nd = sg.len();
        for variant in 0..3u32 {
            let (digits, e, want, tag): (Vec<u8>, i64, u64, &'static str) = match variant {
                0 => (sg.to_vec(), e10, even, "MID_TIE"),
                1 => {
                    let mut v = sg.to_vec();
                    v.push(b'1');
                    (v, e10 - 1, upper, "MID_ABOVE")
                }
                _ => {
                    // expansion * 10 - 1: decrement with borrow, then a nine
                    let mut v = sg.to_vec();
                    let mut i = nd;
                    loop {
                        i -= 1;
                        if v[i] == b'0' {
                            v[i] = b'9';
                        } else {
                            v[i] -= 1;
                            break;
                        }
                    }
                    v.push(b'9');
                    let lz = v.iter().take_while(|&&c| c == b'0').count();
                    (v[lz..].to_vec(), e10 - 1, b, "MID_BELOW")
                }
            };
            // deterministic layout rotation
            let lay = (k + variant as u64) % 3;
            let c = match gen::place(&digits, e, lay, (k % 4) as usize, 1 + (k % 7) as usize, tag) {
                Some(c) => c,
                None => continue,
            };
            sink::reset();
            let got = mlverif::parse_case(fmt, &c);
            local_evals += 1;
            let p = sink::path();
            let pi = if p.fast { 0 } else if p.slow_neg { 1 } else if p.slow_pos { 2 } else if p.moderate { 3 } else { 4 };
            paths[pi] += 1;
            if p.slow_digits == max_digits(fmt) + 1 {
                paths[5] += 1;
            }
            let sampled = (k & 0xfff) == 1;
            if got != want || sampled {
                // full oracle flow (also produces the replay file); by-construction and oracle must agree
                let before = ctx.rep.nviol;
                let held = ctx.judge(fmt, &c);
                ctx.rep.count("midpoints.oracle_consulted");
                if got != want && held && ctx.rep.nviol == before {
                    ctx.rep.inconclusive(&format!("GENERATOR-ERROR: by-construction expectation {} for {} {} disagrees with the oracle", bits_hex(fmt, want), tag, c.show()));
                }
            }
        }
        ctx.rep.distinct(b | 1 << 40);
    }
    ctx.rep.evals += local_evals;
    ctx.rep.add("midpoints.enumerated", k1 - k0);
    flush_paths(ctx, &paths);
    true
}

/// Exactly rounded f32 of w x 10^q for 0 < w < 2^32 and |q| <= 22, with u128 integer arithmetic only (no float
/// operation, no big integers): an independent fast oracle for the bounded-exhaustive sweep below.
fn f32_of_short(w: u64, q: i32) -> u32 {
    debug_assert!(w > 0 && w < (1u64 << 32) && q.abs() <= 22);
    // value = n / d * 2^e2 exactly, then reduce to a 24-bit significand with round-half-even (sticky from the remainder)
    let p10 = 10u128.pow(q.unsigned_abs());
    let (num, den): (u128, u128) = if q >= 0 { (w as u128 * p10, 1) } else { (w as u128, p10) };
    // scale so that the integer quotient has at least 26 bits
    let lnum = 128 - num.leading_zeros() as i32;
    let lden = 128 - den.leading_zeros() as i32;
    let s = (26 + lden - lnum).max(0); // left shift of the numerator (q >= 0: den = 1)
    debug_assert!(lnum + s <= 127);
    let quo = (num << s) / den;
    let sticky = (num << s) % den != 0;
    // value = quo * 2^-s (+ sticky)
    let l = 128 - quo.leading_zeros() as i32; // >= 26, or exact small integer when q >= 0 and s == 0
    let (mut m, mut e2): (u128, i32);
    if l <= 24 {
        m = quo;
        e2 = -s;
        debug_assert!(!sticky);
    } else {
        let drop = l - 24;
        m = quo >> drop;
        let rem = quo & ((1u128 << drop) - 1);
        let half = 1u128 << (drop - 1);
        e2 = drop - s;
        if rem > half || (rem == half && (sticky || m & 1 == 1)) {
            m += 1;
        }
        if m == 1 << 24 {
            m >>= 1;
            e2 += 1;
        }
    }
    // normalise m to [2^23, 2^24)
    while m < (1 << 23) {
        m <<= 1;
        e2 -= 1;
    }
    let biased = e2 + 23 + 127;
    debug_assert!(biased > 0 && biased < 255);
    ((biased as u32) << 23) | (m as u32 & 0x7f_ffff)
}

/// C02, bounded-exhaustive: EVERY decimal w x 10^q with 0 < w < 2^32 (all inputs of up to 9 digits and 43 % of the
/// 10-digit ones) and q in [-22, 22] (or every `stride`-th w), parsed as f32 and compared with exact integer rounding.
/// This is the territory of fast paths and of shortcuts through wider types, where a double rounding shows on a few
/// dozen inputs out of 10^11. A mismatch is confirmed by the full oracle before it is reported.
fn mode_f32_short_sweep(ctx: &mut Ctx, rng: &mut Rng, stride: u64, shard: (u64, u64), frac_of_budget: f64) -> bool {
    let until = ctx.rep.start + (ctx.rep.deadline - ctx.rep.start).mul_f64(frac_of_budget);
    let total: u64 = 1 << 32;
    let per = (total / stride + shard.1) / shard.1;
    let (k0, k1) = (shard.0 * per, ((shard.0 + 1) * per).min(total / stride + 1));
    let offset = if stride > 1 { rng.below(stride) } else { 0 };
    let mut n = 0u64;
    let mut buf = [0u8; 10];
    let mut k = k0;
    while k < k1 {
        if k % 4096 == 0 && std::time::Instant::now() >= until {
            ctx.rep.add("short_sweep.cases", n);
            return false;
        }
        let w = k * stride + offset;
        k += 1;
        if w == 0 || w >= total {
            continue;
        }
        // decimal digits of w
        let mut i = 10;
        let mut t = w;
        while t > 0 {
            i -= 1;
            buf[i] = b'0' + (t % 10) as u8;
            t /= 10;
        }
        let digits = &buf[i..];
        for q in -22i32..=22 {
            let got = minimal_lexical::parse_float::<f32, _, _>(digits.iter(), [].iter(), q).to_bits();
            let want = f32_of_short(w, q);
            n += 1;
            if got != want {
                let c = Case::new(digits, b"", q, "SHORT_SWEEP");
                ctx.rep.count("short_sweep.mismatch_with_integer_oracle");
                ctx.judge(F32, &c);
                // the two oracles must agree with each other
                if oracle::check(&c.dec(), F32, want as u64) == false {
                    ctx.rep.inconclusive(&format!("ORACLE-DISAGREEMENT: integer oracle says {:08x} for {}e{}, the digit-string oracle rejects it", want, w, q));
                }
            }
        }
        if k % 65_521 == 0 {
            // keep the two oracles honest against each other on a sample of agreeing cases too
            let c = Case::new(digits, b"", -22 + (k % 45) as i32, "SHORT_SWEEP");
            ctx.judge(F32, &c);
        }
    }
    ctx.rep.add("short_sweep.cases", n);
    ctx.rep.evals += n;
    true
}

fn flush_paths(ctx: &mut Ctx, paths: &[u64; 6]) {
    for (i, k) in ["midpoints.path.fast", "midpoints.path.slow_neg", "midpoints.path.slow_pos", "midpoints.path.moderate", "midpoints.path.other", "midpoints.sticky_digit"].iter().enumerate() {
        ctx.rep.add(k, paths[i]);
    }
}

/// The third-party corpus shipped in etc/correctness (lines: f16 f32 f64 string): crate, oracle and the
/// file's expectation are three independent authorities that must agree.
fn shipped_corpus(ctx: &mut Ctx, dir: &str, fmt: Fmt) {
    let mut files: Vec<std::path::PathBuf> = match std::fs::read_dir(dir) {
        Ok(rd) => rd.filter_map(|e| e.ok().map(|e| e.path())).filter(|p| p.extension().map_or(false, |x| x == "txt")).collect(),
        Err(_) => return,
    };
    files.sort();
    for f in files {
        let txt = match std::fs::read_to_string(&f) {
            Ok(t) => t,
            Err(_) => continue,
        };
        for line in txt.lines() {
            let p: Vec<&str> = line.split_whitespace().collect();
            if p.len() != 4 {
                continue;
            }
            let want = match u64::from_str_radix(if fmt.mant_bits == 52 { p[2] } else { p[1] }, 16) {
                Ok(v) => v,
                Err(_) => continue,
            };
            // plain decimal literals only: [+-]? digits [. digits] [e [+-] digits]
            let b = p[3].as_bytes();
            let mut i = 0;
            let neg = b.first() == Some(&b'-');
            if b.first() == Some(&b'+') || neg {
                i += 1;
            }
            let st = i;
            while i < b.len() && b[i].is_ascii_digit() {
                i += 1;
            }
            let int = &b[st..i];
            let mut frac: &[u8] = &[];
            if i < b.len() && b[i] == b'.' {
                i += 1;
                let fs = i;
                while i < b.len() && b[i].is_ascii_digit() {
                    i += 1;
                }
                frac = &b[fs..i];
            }
            let mut exp: i64 = 0;
            if i < b.len() && (b[i] == b'e' || b[i] == b'E') {
                i += 1;
                let mut eneg = false;
                if i < b.len() && (b[i] == b'+' || b[i] == b'-') {
                    eneg = b[i] == b'-';
                    i += 1;
                }
                let es = i;
                while i < b.len() && b[i].is_ascii_digit() {
                    exp = (exp * 10 + (b[i] - b'0') as i64).min(1 << 40);
                    i += 1;
                }
                if es == i {
                    continue;
                }
                if eneg {
                    exp = -exp;
                }
            }
            if i != b.len() || (int.is_empty() && frac.is_empty()) || neg || exp.abs() > i32::MAX as i64 {
                continue;
            }
            let lz = int.iter().take_while(|&&c| c == b'0').count();
            let c = Case::new(&int[lz..], frac, exp as i32, "SHIPPED_CORPUS");
            let before = ctx.rep.nviol;
            let held = ctx.judge(fmt, &c);
            ctx.rep.count("corpus.shipped_lines");
            if held && ctx.rep.nviol == before {
                // crate == oracle; the file must say the same
                let got = parse_case(fmt, &c);
                if got != want {
                    ctx.rep.inconclusive(&format!("ORACLE-DISAGREEMENT: shipped corpus expects {} for {} {}, oracle and crate say {}", bits_hex(fmt, want), fmt.name, p[3], bits_hex(fmt, got)));
                }
            }
        }
    }
}

fn mode_oracle(ctx: &mut Ctx, args: &Args, rng: &mut Rng, shard: (u64, u64)) {
    let fmts: Vec<Fmt> = match ctx.prop.as_str() {
        "C01" => vec![F64],
        "C02" => vec![F32],
        _ => vec![F64, F32],
    };
    let max = args.u64("max-evals", u64::MAX);
    if shard.0 == 0 && (ctx.prop == "C01" || ctx.prop == "C02") {
        if let Some(dir) = args.get("shipped-corpus") {
            let dir = dir.to_string();
            shipped_corpus(ctx, &dir, fmts[0]);
        }
    }
    if ctx.prop == "C02" {
        if let Some(st) = args.get("midpoints") {
            let stride: u64 = st.parse().expect("--midpoints <stride>");
            let frac = args.f64("midpoints-budget", 0.5);
            let done = mode_f32_midpoints(ctx, stride, shard, frac);
            ctx.rep.extra.insert("f32_midpoint_stride".into(), format!("{}", stride));
            ctx.rep.extra.insert("f32_midpoint_range_completed".into(), format!("{}", done));
        }
        if let Some(st) = args.get("short-sweep") {
            let stride: u64 = st.parse().expect("--short-sweep <stride>");
            let frac = args.f64("short-sweep-budget", 0.3);
            let done = mode_f32_short_sweep(ctx, rng, stride, shard, frac);
            ctx.rep.extra.insert("f32_short_sweep_stride".into(), format!("{}", stride));
            ctx.rep.extra.insert("f32_short_sweep_range_completed".into(), format!("{}", done));
        }
    }
    // systematic sweep first: every binade of each format x {midpoint, exact value} x all seven variants
    // (random fraction, random layout), sharded - so that no binade depends on luck
    for &fmt in &fmts {
        let emax = (1u64 << fmt.exp_bits) - 2;
        let mut e = shard.0;
        while e <= emax {
            let bits = e << fmt.mant_bits | (rng.next() & fmt.frac_mask());
            for mid in [true, false] {
                for which in 0..7u64 {
                    let (c, _) = gen::g1_for(rng, fmt, bits, mid, which);
                    if ctx.prop == "C06" && c.sig_digits() < 20 {
                        continue;
                    }
                    ctx.judge(fmt, &c);
                    ctx.rep.count("sweep.all_binades");
                }
            }
            e += shard.1;
        }
    }
    let mut i = 0u64;
    while ctx.rep.evals < max {
        if i % 64 == 0 && ctx.rep.out_of_time() {
            break;
        }
        let fmt = fmts[(i % fmts.len() as u64) as usize];
        i += 1;
        let c = next_case(ctx, rng, fmt);
        ctx.judge(fmt, &c);
        // C02: double-rounding probes are ordinary G1 ABOVE/BELOW cases with a tiny offset; count those
        // where rounding through f64 first would give a different f32.
        if ctx.prop == "C02" && c.ndigits() < 800 {
            if let Some(s64) = oracle::std_parse(F64, &c.int, &c.frac, c.exp as i64) {
                let two_step = (f64::from_bits(s64) as f32).to_bits() as u64;
                if let Some(s32) = oracle::std_parse(F32, &c.int, &c.frac, c.exp as i64) {
                    if two_step != s32 {
                        ctx.rep.count("probe.double_rounding_discriminating");
                    }
                }
            }
        }
    }
    for k in ["path.fast", "path.moderate_definite", "path.moderate_declined", "path.slow_pos", "path.slow_neg", "path.sticky_digit", "path.many_digits"] {
        if k == "path.fast" && ctx.prop == "C06" {
            continue; // inputs with >= 20 digits can never take the fast path
        }
        ctx.rep.require(k);
    }
    if ctx.prop == "C02" {
        ctx.rep.require("probe.double_rounding_discriminating");
    }
    if ctx.prop == "C01" {
        ctx.rep.require("tag.LIMB_STRUCTURED");
        // the slow path's two big integers on different sides of a power of 2^64 (constructed: gen::g_limb_boundary)
        ctx.rep.require("tag.LIMB_BOUNDARY");
        ctx.rep.require("path.slow_neg_limb_boundary_between_digits_and_halfway");
    }
    if !cfg!(feature = "compact") && (ctx.prop == "C01" || ctx.prop == "C07") {
        // Eisel-Lemire's lo == MAX bail-out: reached only through the constructed corpus entries (2^-64 otherwise)
        ctx.rep.require("path.lemire_lo_max_fallback");
    }
    if ctx.prop == "C01" || ctx.prop == "C02" || ctx.prop == "C07" {
        ctx.rep.require("tag.PSEUDO_MIDPOINT_ABOVE_RANGE");
        ctx.rep.require("tag.PSEUDO_MIDPOINT_BELOW_RANGE");
    }
    if ctx.prop == "C07" {
        for k in ["class.inf", "class.zero", "class.subnormal", "tag.ZERO", "tag.COMP_INT", "tag.COMP_FRAC", "tag.EXTREME_EXP", "tag.CFHARD_RANGE_END"] {
            ctx.rep.require(k);
        }
    }
}

/// C03: printed floats parse back to the same float.
fn mode_roundtrip(ctx: &mut Ctx, args: &Args, rng: &mut Rng, shard: (u64, u64)) {
    let thorough = args.str("tier", "quick") == "thorough";
    // f32: strided (quick) or complete (thorough) enumeration of finite non-negative patterns.
    let total32: u64 = 0x7f80_0000;
    let stride32: u64 = if thorough { 1 } else { args.u64("stride32", 3989) };
    let offset = rng.below(stride32);
    let mut done32 = true;
    let per = (total32 / stride32 + 1 + shard.1 - 1) / shard.1;
    let start_k = shard.0 * per;
    let f32_budget = ctx.rep.start + (ctx.rep.deadline - ctx.rep.start).mul_f64(if thorough { 0.8 } else { 0.45 });
    let mut k = start_k;
    while k < start_k + per {
        let bits = k * stride32 + offset;
        if bits >= total32 {
            break;
        }
        if k % 256 == 0 && std::time::Instant::now() >= f32_budget {
            done32 = false;
            break;
        }
        for which in 0..3u64 {
            roundtrip_one(ctx, rng, F32, bits, which);
        }
        k += 1;
    }
    ctx.rep.extra.insert("f32_stride".into(), format!("{}", stride32));
    ctx.rep.extra.insert("f32_range_completed".into(), format!("{}", done32));
    // f64: every biased exponent x structured fractions (sharded), then random.
    let fm = F64.frac_mask();
    let mut e = shard.0;
    while e <= 2046 {
        let fr: [u64; 11] = [0, 1, 2, fm, fm - 1, fm - 2, 1u64 << 51, 1u64 << 50, rng.next() & fm, rng.next() & fm, rng.next() & fm];
        for f in fr {
            for which in 0..3u64 {
                // the structured values (powers of two and their neighbours, 1.5 x and 1.25 x 2^k) in every layout
                for lay in 0..4u64 {
                    roundtrip_lay(ctx, rng, F64, e << 52 | f, which, Some(lay));
                }
            }
        }
        e += shard.1;
    }
    // the same structured values for f32, every biased exponent, every layout (on top of the strided / complete enumeration)
    let fm32 = F32.frac_mask();
    let mut e = shard.0;
    while e <= 254 {
        for f in [0, 1, 2, fm32, fm32 - 1, 1u64 << 22, 1u64 << 21, 3u64 << 21] {
            for which in 0..3u64 {
                for lay in 0..4u64 {
                    roundtrip_lay(ctx, rng, F32, e << 23 | f, which, Some(lay));
                }
            }
        }
        e += shard.1;
    }
    // floats next to an exact tie that fits 19 digits (G5): the tie string is the shortest rendering of its even neighbour,
    // so these are the floats whose printed form is itself a rounding boundary
    for n in 0..(if thorough { 20_000 } else { 1_500 }) {
        if n % 64 == 0 && ctx.rep.out_of_time() {
            break;
        }
        let fmt = if n % 3 == 0 { F32 } else { F64 };
        let tie = gen::g5(rng, fmt);
        let even = oracle::round(&tie.dec(), fmt);
        if even >= fmt.inf_bits() {
            continue;
        }
        for bits in [even, even.saturating_sub(1), (even + 1).min(fmt.inf_bits() - 1)] {
            for which in 0..3u64 {
                for lay in 0..4u64 {
                    roundtrip_lay(ctx, rng, fmt, bits, which, Some(lay));
                }
            }
        }
        ctx.rep.count("floats_next_to_19_digit_ties");
    }
    let mut i = 0u64;
    loop {
        if i % 64 == 0 && ctx.rep.out_of_time() {
            break;
        }
        i += 1;
        let bits = if rng.chance(1, 2) { gen::pick_float(rng, F64) } else { rng.next() % F64.inf_bits() };
        let which = rng.below(3);
        roundtrip_one(ctx, rng, F64, bits, which);
    }
    for k in ["floats_next_to_19_digit_ties", "layout.positional", "render.shortest", "render.fixed", "render.exact", "path.fast", "path.moderate_definite", "path.slow_neg", "path.slow_pos"] {
        ctx.rep.require(k);
    }
}

fn roundtrip_one(ctx: &mut Ctx, rng: &mut Rng, fmt: Fmt, bits: u64, which: u64) {
    roundtrip_lay(ctx, rng, fmt, bits, which, None)
}

fn roundtrip_lay(ctx: &mut Ctx, rng: &mut Rng, fmt: Fmt, bits: u64, which: u64, layout: Option<u64>) {
    let (sig, e10) = gen::render(fmt, bits, which);
    let lz = sig.iter().take_while(|&&c| c == b'0').count();
    let c = if lz == sig.len() {
        Case::new(b"", b"", 0, "RENDER_ZERO")
    } else {
        let sig = &sig[lz..];
        let tag = ["RENDER_SHORTEST", "RENDER_FIXED", "RENDER_EXACT"][which as usize];
        // layout: scientific-like (d.ddd e X), integer-only, fraction-only, or positional (as `{}` prints: exponent 0)
        let lay = layout.unwrap_or_else(|| rng.below(4));
        ctx.rep.count(["layout.scientific", "layout.int_only", "layout.frac_only", "layout.positional"][lay as usize]);
        match gen::place(sig, e10, if lay == 0 { 2 } else if lay == 3 { 3 } else { lay - 1 }, rng.below(3) as usize, 1, tag) {
            Some(c) => c,
            None => return,
        }
    };
    let (r, p) = ctx.run(fmt, &c);
    ctx.rep.count(["render.shortest", "render.fixed", "render.exact"][which as usize]);
    match r {
        Err(msg) => {
            let loc = util::last_panic_loc();
            ctx.violation(fmt, &c, "panic", &format!("panic at {}: {}", loc, msg), &bits_hex(fmt, bits), &p)
        }
        Ok(got) => {
            ctx.classify(fmt, &c, got, &p);
            ctx.rep.distinct(bits ^ (which << 62) ^ ((fmt.mant_bits as u64) << 56));
            ctx.rep.sample(|| format!("{{\"fmt\":{},\"float\":{},\"case\":{}}}", json_str(fmt.name), json_str(&bits_hex(fmt, bits)), c.json()));
            if got != bits {
                // the renderer is part of the trusted base: confirm with the oracle that the rendering denotes a value that rounds to `bits`
                if !oracle::check(&c.dec(), fmt, bits) {
                    ctx.rep.inconclusive(&format!("RENDERER-DISAGREEMENT: {} rendering {} of {} does not round back per oracle", fmt.name, which, bits_hex(fmt, bits)));
                    return;
                }
                ctx.violation(fmt, &c, "roundtrip-mismatch", &bits_hex(fmt, got), &bits_hex(fmt, bits), &p);
            }
        }
    }
}

/// Capacity maximisers + random hostile valid cases until `until`.
fn nopanic_random(ctx: &mut Ctx, rng: &mut Rng, until: std::time::Instant) {
    let mut i = 0u64;
    loop {
        if i % 32 == 0 && std::time::Instant::now() >= until {
            break;
        }
        i += 1;
        let fmt = if i % 2 == 0 { F64 } else { F32 };
        let c = match rng.below(11) {
            0 | 1 | 2 => capacity_case(rng, fmt),
            3 | 4 => gen::g3(rng, fmt),
            10 => gen::g1x(rng, fmt),
            5 | 6 => gen::g1(rng, fmt),
            7 => gen::g_seam(rng, fmt),
            8 => gen::g5(rng, fmt),
            _ => gen::g9(rng, fmt),
        };
        nopanic_one(ctx, fmt, &c);
    }
}

/// C04: hostile valid inputs; the verdict is the panic monitor (and the process exit status, seen by the runner).
fn mode_nopanic(ctx: &mut Ctx, _args: &Args, rng: &mut Rng, shard: (u64, u64)) {
    let lens: &[usize] = &[0, 1, 2, 18, 19, 20, 21, 38, 39, 57, 113, 114, 115, 116, 768, 769, 770, 771, 1000, 10_000, 100_000, 1_000_000];
    let exps: &[i64] = &[
        i32::MIN as i64, i32::MIN as i64 + 1, i32::MIN as i64 + 1_000_000, -1_000_000, -4096, -1100, -343, -342, -325, -324, -308, -66, -65, -46, -45, -38, -23, -22, -1, 0, 1, 22, 23, 38, 39, 308, 309, 4095,
        4096, 1_000_000, i32::MAX as i64 - 1_000_000, i32::MAX as i64 - 1, i32::MAX as i64,
    ];
    let first = ctx.rep.start + (ctx.rep.deadline - ctx.rep.start).mul_f64(0.25);
    nopanic_random(ctx, rng, first);
    let mut idx = 0u64;
    // deterministic grid: pattern x length x placement x exponent
    'grid: for &n in lens {
        for pat in 0..5u32 {
            for placement in 0..3u32 {
                for &e in exps {
                    idx += 1;
                    if idx % shard.1 != shard.0 {
                        continue;
                    }
                    if ctx.rep.out_of_time() {
                        ctx.rep.count("grid.cut_short_by_budget");
                        break 'grid;
                    }
                    if n >= 100_000 && (idx / shard.1) % 4 != 0 {
                        continue; // thin out the very long ones
                    }
                    let mut d: Vec<u8> = match pat {
                        0 => vec![b'9'; n],
                        1 => vec![b'1'; n],
                        2 => {
                            let mut v = vec![b'0'; n];
                            if n > 0 {
                                v[0] = b'1';
                            }
                            v
                        }
                        3 => {
                            let mut v = vec![b'0'; n];
                            if n > 0 {
                                v[n - 1] = b'1';
                                v[0] = b'1';
                            }
                            v
                        }
                        _ => {
                            let mut v = rng.digits(n);
                            if n > 0 {
                                v[0] = rng.nz_digit();
                            }
                            v
                        }
                    };
                    let c = match placement {
                        0 => Case { int: std::mem::take(&mut d), frac: vec![], exp: e as i32, tag: "GRID_INT" },
                        1 => {
                            // fraction only; pattern 3 gets leading zeros "0...01"
                            if pat == 3 && n > 0 {
                                d[0] = b'0';
                            }
                            Case { int: vec![], frac: std::mem::take(&mut d), exp: e as i32, tag: "GRID_FRAC" }
                        }
                        _ => {
                            let s = n / 2;
                            Case { int: d[..s].to_vec(), frac: d[s..].to_vec(), exp: e as i32, tag: "GRID_SPLIT" }
                        }
                    };
                    for fmt in [F64, F32] {
                        nopanic_one(ctx, fmt, &c);
                    }
                    // compensating exponent: same digits, exponent chosen so the value lands near the ends of the range
                    for target in [-1080i64, -330, -320, -46, 0, 39, 300, 309] {
                        let e2 = match placement {
                            0 => target - n as i64,
                            1 => target + n as i64,
                            _ => target - (n / 2) as i64,
                        };
                        if e2 >= i32::MIN as i64 && e2 <= i32::MAX as i64 {
                            let mut c2 = c.clone();
                            c2.exp = e2 as i32;
                            c2.tag = "GRID_COMP";
                            for fmt in [F64, F32] {
                                nopanic_one(ctx, fmt, &c2);
                            }
                        }
                    }
                }
            }
        }
    }
    // capacity maximisers + random hostile valid cases until the budget ends
    let end = ctx.rep.deadline;
    nopanic_random(ctx, rng, end);
    for k in ["path.slow_pos", "path.slow_neg", "path.sticky_digit", "path.large_pow5_step", "tag.CAPACITY", "digits.ge10k"] {
        if k == "path.large_pow5_step" && cfg!(feature = "compact") {
            continue;
        }
        ctx.rep.require(k);
    }
}

/// Inputs that maximise big-integer sizes: max digits at exponents that maximise 5^-e and the shifts.
fn capacity_case(rng: &mut Rng, fmt: Fmt) -> Case {
    let maxd = max_digits(fmt) as usize;
    let n = (maxd as i64 + rng.range(-2, 3)) as usize;
    let mut sig = match rng.below(3) {
        0 => vec![b'9'; n],
        1 => rng.digits(n),
        _ => {
            let mut v = vec![b'0'; n];
            v[n - 1] = b'1';
            v
        }
    };
    sig[0] = if rng.chance(1, 2) { b'9' } else { rng.nz_digit() };
    // leading digit magnitude: near the bottom (max 5^k), near 1, near the top
    let (lo, hi) = if fmt.mant_bits == 52 { (-324i64, 309i64) } else { (-46, 39) };
    let mag = match rng.below(6) {
        0 | 1 => rng.range(lo - 2, lo + 20),
        2 => rng.range(-2, 2),
        3 => rng.range(hi - 22, hi + 1),
        4 => rng.range(lo, hi),
        _ => rng.range(hi - 40, hi - 15), // 20 digits x 10^288: largest positive_digit_comp
    };
    let e10 = mag - n as i64 + 1;
    loop {
        if let Some(mut c) = gen::place_random(rng, &sig, e10, "CAPACITY") {
            c.tag = "CAPACITY";
            return c;
        }
    }
}

fn nopanic_one(ctx: &mut Ctx, fmt: Fmt, c: &Case) {
    let (r, p) = ctx.run(fmt, c);
    match r {
        Ok(bits) => {
            ctx.classify(fmt, c, bits, &p);
            if !p.fast {
                ctx.rep.distinct(c.hash() ^ fmt.mant_bits as u64);
            }
            ctx.rep.sample(|| format!("{{\"fmt\":{},\"case\":{},\"bits\":{}}}", json_str(fmt.name), c.json(), json_str(&bits_hex(fmt, bits))));
            if fmt.is_nan(bits) || bits & fmt.sign_bit() != 0 {
                ctx.violation(fmt, c, "nan-or-negative", &bits_hex(fmt, bits), "a non-negative non-NaN value", &p);
            }
        }
        Err(msg) => {
            let loc = util::last_panic_loc();
            ctx.violation(fmt, c, "panic", &format!("panic at {}: {}", loc, msg), "a value", &p);
        }
    }
}

/// C05: identical seeded stream in every configuration; emit a hash per chunk of results.
fn mode_dump(ctx: &mut Ctx, args: &Args, rng: &mut Rng) {
    let count = args.u64("count", 100_000);
    let chunk = args.u64("chunk", 4096);
    let dump_chunk = args.get("dump-chunk").map(|s| s.parse::<u64>().unwrap());
    let mut hashes: Vec<String> = Vec::new();
    let mut h = Hasher64::new();
    let mut i = 0u64;
    while i < count {
        let fmt = if i % 2 == 0 { F64 } else { F32 };
        // NOTE: generation must not depend on results or timing, only on the rng.
        let c = next_case(ctx, rng, fmt);
        let ck = i / chunk;
        let want_detail = dump_chunk == Some(ck);
        let skip = dump_chunk.is_some() && !want_detail;
        if !skip {
            let (r, p) = ctx.run(fmt, &c);
            let bits = match r {
                Ok(b) => {
                    ctx.classify(fmt, &c, b, &p);
                    b
                }
                Err(_) => {
                    ctx.rep.count("panics");
                    0xdead_dead_dead_dead
                }
            };
            if !p.fast {
                ctx.rep.distinct(c.hash() ^ fmt.mant_bits as u64);
            }
            ctx.rep.sample(|| format!("{{\"fmt\":{},\"case\":{},\"bits\":{}}}", json_str(fmt.name), c.json(), json_str(&bits_hex(fmt, bits))));
            h.u64(bits);
            if want_detail {
                println!("DUMP {} {} {} {}", i, fmt.name, c.key(), bits_hex(fmt, bits));
            }
        }
        i += 1;
        if i % chunk == 0 || i == count {
            hashes.push(format!("\"{:016x}\"", h.finish()));
            h = Hasher64::new();
        }
    }
    ctx.rep.extra.insert("chunks".into(), format!("[{}]", hashes.join(",")));
    ctx.rep.extra.insert("chunk_size".into(), format!("{}", chunk));
}

/// C09: clusters of nearby inputs sorted by exact decimal value must parse to a non-decreasing sequence.
fn mode_monotonic(ctx: &mut Ctx, _args: &Args, rng: &mut Rng) {
    let mut i = 0u64;
    loop {
        if ctx.rep.out_of_time() {
            break;
        }
        i += 1;
        let fmt = if i % 2 == 0 { F64 } else { F32 };
        let kind = rng.below(11);
        let mut cluster: Vec<Case> = Vec::new();
        let mut presorted = false;
        match kind {
            10 => {
                // a 19-digit exact tie (or near-tie), its neighbours w-1 / w+1, each in several spellings
                // (short, padded beyond 19 digits so that the truncating route is taken, fraction-only)
                let c0 = gen::g5(rng, fmt);
                let d = c0.dec();
                if d.is_zero() {
                    continue;
                }
                let (sig, e10) = d.digits_exp();
                if sig.len() > 19 {
                    continue;
                }
                let w0: u64 = std::str::from_utf8(sig).unwrap().parse().unwrap();
                for dw in [-1i64, 0, 0, 0, 1] {
                    let w = (w0 as i128 + dw as i128).clamp(1, u64::MAX as i128) as u64;
                    let mut s2 = w.to_string().into_bytes();
                    let mut e = e10;
                    match rng.below(3) {
                        0 => {}
                        1 => {
                            let z = rng.range(1, 30) as usize;
                            s2.resize(s2.len() + z, b'0');
                            e -= z as i64;
                        }
                        _ => {
                            let z = (20usize.saturating_sub(s2.len())) + rng.below(3) as usize;
                            s2.resize(s2.len() + z, b'0');
                            e -= z as i64;
                        }
                    }
                    if let Some(c) = gen::place_random(rng, &s2, e, "TIE_SPELLING") {
                        cluster.push(c);
                    }
                }
                ctx.rep.count("cluster.tie_spellings");
            }
            0 | 1 | 2 => {
                // variants around one boundary
                let bits = gen::pick_float(rng, fmt);
                let mid = rng.chance(4, 5) || bits == 0;
                for _ in 0..rng.range(6, 14) {
                    let which = rng.below(7);
                    let (c, _) = gen::g1_for(rng, fmt, bits, mid, which);
                    cluster.push(c);
                }
                ctx.rep.count("cluster.boundary");
            }
            3 => {
                // three adjacent floats and the midpoints between them
                let bits = gen::pick_float(rng, fmt).max(1).min(fmt.max_finite_bits() - 2);
                for b in [bits - 1, bits, bits + 1] {
                    for mid in [false, true] {
                        for _ in 0..3 {
                            let which = rng.below(7);
                            let (c, _) = gen::g1_for(rng, fmt, b, mid, which);
                            cluster.push(c);
                        }
                    }
                }
                ctx.rep.count("cluster.adjacent_floats");
            }
            4 | 5 => {
                // consecutive significands at a fixed exponent, around a seam
                let c0 = gen::g_seam(rng, fmt);
                let d = c0.dec();
                if d.is_zero() {
                    continue;
                }
                let (sig, e10) = d.digits_exp();
                if sig.len() > 19 {
                    continue;
                }
                let w0: u64 = std::str::from_utf8(sig).unwrap().parse().unwrap();
                let len = rng.range(8, 48) as u64;
                for k in 0..len {
                    let w = match w0.checked_add(k) {
                        Some(w) => w,
                        None => break,
                    };
                    let mut s = w.to_string().into_bytes();
                    let mut e = e10;
                    if rng.chance(1, 6) {
                        // extra digits after w: w.ddd still between w and w+1
                        let extra = rng.range(1, 25) as usize;
                        for _ in 0..extra {
                            s.push(rng.digit());
                        }
                        e -= extra as i64;
                    }
                    if let Some(c) = gen::place_random(rng, &s, e, "WRUN") {
                        cluster.push(c);
                    }
                }
                ctx.rep.count("cluster.w_run");
            }
            6 => {
                // same digits, consecutive exponents (x10 each step) across every early-out
                let n = rng.range(1, 22) as usize;
                let mut sig = rng.digits(n);
                sig[0] = rng.nz_digit();
                let (lo, hi) = if fmt.mant_bits == 52 { (-350i64, 315i64) } else { (-70, 45) };
                let q0 = rng.range(lo, hi - 30);
                for q in q0..q0 + rng.range(10, 60) {
                    if let Some(c) = gen::place_random(rng, &sig, q - n as i64, "QRUN") {
                        cluster.push(c);
                    }
                }
                presorted = true;
                ctx.rep.count("cluster.q_run");
            }
            7 => {
                // hard cases and their neighbours
                let c0 = match ctx.corpus_case(rng, fmt) {
                    Some(c) => c,
                    None => continue,
                };
                let d = c0.dec();
                let (sig, e10) = d.digits_exp();
                if sig.len() > 19 || d.is_zero() {
                    continue;
                }
                let w0: u64 = std::str::from_utf8(sig).unwrap().parse().unwrap();
                for dw in -3i64..=3 {
                    let w = (w0 as i128 + dw as i128).clamp(1, u64::MAX as i128) as u64;
                    let s = w.to_string().into_bytes();
                    if let Some(c) = gen::place_random(rng, &s, e10, "CFRUN") {
                        cluster.push(c);
                    }
                    let mut s2 = s.clone();
                    let k = rng.range(1, 40) as usize;
                    for _ in 0..k {
                        s2.push(if rng.chance(1, 2) { b'0' } else { b'9' });
                    }
                    s2.push(rng.nz_digit());
                    if let Some(c) = gen::place_random(rng, &s2, e10 - k as i64 - 1, "CFRUN+") {
                        cluster.push(c);
                    }
                }
                ctx.rep.count("cluster.hard_cases");
            }
            8 => {
                // depth perturbations: P4999..9 < P5 < P5000..01 with the change thousands of digits out
                let bits = gen::pick_float(rng, fmt);
                let b = gen::boundary(fmt, bits, true);
                let (sg, e10) = b.d.digits_exp();
                let depth = *rng.pick(&[1usize, 30, 700, 800, 5000, 20000]);
                let mut below = sg.to_vec();
                let n = below.len();
                below[n - 1] -= 1;
                below.resize(n + depth, b'9');
                let lz = below.iter().take_while(|&&c| c == b'0').count();
                if lz < below.len() {
                    if let Some(c) = gen::place_random(rng, &below[lz..], e10 - depth as i64, "DEPTH_BELOW") {
                        cluster.push(c);
                    }
                }
                if let Some(c) = gen::place_random(rng, sg, e10, "DEPTH_TIE") {
                    cluster.push(c);
                }
                let mut above = sg.to_vec();
                above.resize(n + depth, b'0');
                above.push(b'1');
                if let Some(c) = gen::place_random(rng, &above, e10 - depth as i64 - 1, "DEPTH_ABOVE") {
                    cluster.push(c);
                }
                presorted = true;
                ctx.rep.count("cluster.depth");
            }
            _ => {
                // range ends
                for _ in 0..10 {
                    cluster.push(gen::g3(rng, fmt));
                }
                ctx.rep.count("cluster.range_ends");
            }
        }
        if cluster.len() < 2 {
            continue;
        }
        // exact order
        let mut keyed: Vec<(oracle::Dec, Case)> = cluster.into_iter().map(|c| (c.dec(), c)).collect();
        if !presorted {
            keyed.sort_by(|a, b| a.0.cmp(&b.0));
        } else {
            // the construction promises the order; verify it with the exact comparison
            if keyed.windows(2).any(|w| w[0].0 > w[1].0) {
                ctx.rep.inconclusive("GENERATOR-ERROR: presorted chain is not sorted");
                continue;
            }
        }
        let mut prev: Option<(u64, sink::Path, usize)> = None;
        for idx in 0..keyed.len() {
            let (r, p) = ctx.run(fmt, &keyed[idx].1);
            let bits = match r {
                Ok(b) => b,
                Err(msg) => {
                    let loc = util::last_panic_loc();
                    let c = keyed[idx].1.clone();
                    ctx.violation(fmt, &c, "panic", &format!("panic at {}: {}", loc, msg), "a value", &p);
                    prev = None;
                    continue;
                }
            };
            let c = keyed[idx].1.clone();
            ctx.classify(fmt, &c, bits, &p);
            if fmt.is_nan(bits) || bits & fmt.sign_bit() != 0 {
                ctx.violation(fmt, &c, "nan-or-negative", &bits_hex(fmt, bits), "ordered value", &p);
                prev = None;
                continue;
            }
            if let Some((pb, pp, pidx)) = prev {
                ctx.rep.count("pairs.compared");
                let equal_value = keyed[pidx].0 == keyed[idx].0;
                if pp.tier() != p.tier() {
                    ctx.rep.count("pairs.across_tiers");
                    ctx.rep.count(&format!("pairs.tiers.{}->{}", pp.tier(), p.tier()));
                }
                if bits > pb {
                    ctx.rep.count("pairs.strict_increase");
                }
                if equal_value {
                    ctx.rep.count("pairs.equal_value");
                }
                ctx.rep.distinct(keyed[pidx].1.hash() ^ c.hash().rotate_left(1) ^ fmt.mant_bits as u64);
                if bits < pb || (equal_value && bits != pb) {
                    let a = keyed[pidx].1.clone();
                    let what = if equal_value { "equal-values-differ" } else { "order-inverted" };
                    // replay file describes the pair; the case key holds the larger input, "other" the smaller
                    let sig_extra = format!("smaller input {} -> {} ({}), larger input {} -> {} ({})", a.show(), bits_hex(fmt, pb), pp.tier(), c.show(), bits_hex(fmt, bits), p.tier());
                    ctx.pair_violation(fmt, &a, &c, what, &sig_extra, pb, bits);
                }
            }
            ctx.rep.sample(|| format!("{{\"fmt\":{},\"case\":{},\"bits\":{},\"tier\":{}}}", json_str(fmt.name), c.json(), json_str(&bits_hex(fmt, bits)), json_str(p.tier())));
            prev = Some((bits, p, idx));
        }
    }
    for k in ["pairs.compared", "pairs.across_tiers", "pairs.strict_increase", "pairs.equal_value", "cluster.boundary", "cluster.w_run", "cluster.q_run", "cluster.depth", "cluster.adjacent_floats", "cluster.tie_spellings"] {
        ctx.rep.require(k);
    }
}

/// All spellings of sig * 10^e10 used by C10.
fn spellings(rng: &mut Rng, sig: &[u8], e10: i64, out: &mut Vec<Case>) {
    let n = sig.len();
    let tz = |rng: &mut Rng| -> usize {
        match rng.below(6) {
            0 => 0,
            1 => rng.range(1, 40) as usize,
            2 => 40,
            3 if rng.chance(1, 8) => rng.range(41, 3000) as usize,
            _ => 0,
        }
    };
    let push = |out: &mut Vec<Case>, int: Vec<u8>, frac: Vec<u8>, e: i64, tag: &'static str| {
        if e >= i32::MIN as i64 && e <= i32::MAX as i64 {
            out.push(Case { int, frac, exp: e as i32, tag });
        }
    };
    // every split position (all if short, else a sample incl. the 19/20 seams)
    let mut splits: Vec<usize> = if n <= 48 { (0..=n).collect() } else { vec![0, 1, 18, 19, 20, 21, n / 2, n - 20, n - 19, n - 1, n] };
    if n > 48 {
        for _ in 0..6 {
            splits.push(rng.range(0, n as i64) as usize);
        }
    }
    for s in splits {
        if s > n {
            continue;
        }
        let t = tz(rng);
        let mut frac = sig[s..].to_vec();
        frac.resize(frac.len() + t, b'0');
        push(out, sig[..s].to_vec(), frac, e10 + (n - s) as i64, "SPLIT");
    }
    // digits moved into the exponent: integer gets j extra zeros
    for j in [1usize, 2, 5, 19, 20, 40, 300, 800, 9_000, 100_000] {
        if (j > 40 && !rng.chance(1, 4)) || (j > 800 && !rng.chance(1, 16)) {
            continue;
        }
        let mut int = sig.to_vec();
        int.resize(n + j, b'0');
        let t = tz(rng);
        push(out, int, vec![b'0'; t], e10 - j as i64, "INT_ZEROS");
    }
    // empty integer, z leading zeros in the fraction
    for z in [0usize, 1, 2, 18, 19, 20, 40, 400, 5000, 100_000] {
        if (z > 40 && !rng.chance(1, 4)) || (z > 5000 && !rng.chance(1, 16)) {
            continue;
        }
        let mut frac = vec![b'0'; z];
        frac.extend_from_slice(sig);
        let t = tz(rng);
        frac.resize(frac.len() + t, b'0');
        push(out, vec![], frac, e10 + (z + n) as i64, "FRAC_ZEROS");
    }
    // positional spelling (exponent 0), as `{}` would print the value
    if e10 >= 0 && e10 <= 1200 {
        let mut int = sig.to_vec();
        int.resize(n + e10 as usize, b'0');
        let t = tz(rng);
        push(out, int, vec![b'0'; t], 0, "POSITIONAL");
    } else if e10 < 0 && e10 >= -1500 {
        let k = (-e10) as usize;
        let t = tz(rng);
        if k < n {
            let mut frac = sig[n - k..].to_vec();
            frac.resize(frac.len() + t, b'0');
            push(out, sig[..n - k].to_vec(), frac, 0, "POSITIONAL");
        } else {
            let mut frac = vec![b'0'; k - n];
            frac.extend_from_slice(sig);
            frac.resize(frac.len() + t, b'0');
            push(out, vec![], frac, 0, "POSITIONAL");
        }
    }
    // appended fraction zeros 0..40 on one fixed split
    let s = rng.range(0, n as i64) as usize;
    for t in [0usize, 1, 2, 3, 10, 17, 18, 19, 20, 21, 39, 40] {
        let mut frac = sig[s..].to_vec();
        frac.resize(frac.len() + t, b'0');
        push(out, sig[..s].to_vec(), frac, e10 + (n - s) as i64, "TRAILING_ZEROS");
    }
}

/// C10: equal values written differently give identical bits.
fn mode_resplit(ctx: &mut Ctx, _args: &Args, rng: &mut Rng) {
    let mut i = 0u64;
    let mut routes: HashSet<(u64, i64, bool)> = HashSet::new();
    loop {
        if ctx.rep.out_of_time() {
            break;
        }
        i += 1;
        let fmt = if i % 2 == 0 { F64 } else { F32 };
        let base = match rng.below(10) {
            0 | 1 | 2 | 3 => gen::g1(rng, fmt),
            4 => gen::g5(rng, fmt),
            5 => gen::g_seam(rng, fmt),
            6 => match ctx.corpus_case(rng, fmt) {
                Some(c) => c,
                None => continue,
            },
            7 => gen::g3(rng, fmt),
            _ => gen::g9(rng, fmt),
        };
        let d = base.dec();
        if d.is_zero() || d.d.len() > 20_000 && !(d.d.len() <= 200_000 && rng.chance(1, 8)) {
            continue;
        }
        if d.d.len() > 3000 {
            ctx.rep.count("bases.longer_than_3000_digits");
        }
        let (sig, e10) = d.digits_exp();
        let mut sp: Vec<Case> = Vec::new();
        spellings(rng, sig, e10, &mut sp);
        if sp.len() < 2 {
            continue;
        }
        ctx.rep.count("bases");
        ctx.rep.count(&format!("base.{}", base.tag));
        routes.clear();
        let mut first: Option<(u64, sink::Path, Case)> = None;
        let mut tiers: HashSet<&'static str> = HashSet::new();
        for c in sp {
            debug_assert!(c.dec() == d);
            let (r, p) = ctx.run(fmt, &c);
            let bits = match r {
                Ok(b) => b,
                Err(msg) => {
                    let loc = util::last_panic_loc();
                    ctx.violation(fmt, &c, "panic", &format!("panic at {}: {}", loc, msg), "a value", &p);
                    continue;
                }
            };
            ctx.classify(fmt, &c, bits, &p);
            ctx.rep.count(&format!("spelling.{}", c.tag));
            routes.insert((p.mantissa, p.exponent, p.many_digits));
            tiers.insert(p.tier());
            ctx.rep.distinct(c.hash() ^ fmt.mant_bits as u64);
            ctx.rep.sample(|| format!("{{\"fmt\":{},\"case\":{},\"bits\":{},\"tier\":{}}}", json_str(fmt.name), c.json(), json_str(&bits_hex(fmt, bits)), json_str(p.tier())));
            match &first {
                None => {
                    // anchor the class to the exact value on a sample
                    if i % 8 == 0 {
                        ctx.rep.count("anchor.oracle_checked");
                        if !oracle::check(&d, fmt, bits) {
                            let want = oracle::round(&d, fmt);
                            if want != bits {
                                ctx.violation(fmt, &c, "wrong-value", &bits_hex(fmt, bits), &bits_hex(fmt, want), &p);
                            }
                        }
                    }
                    first = Some((bits, p, c));
                }
                Some((fb, fp, fc)) => {
                    if bits != *fb {
                        let extra = format!("{} -> {} ({}), {} -> {} ({})", fc.show(), bits_hex(fmt, *fb), fp.tier(), c.show(), bits_hex(fmt, bits), p.tier());
                        let (fb, fc) = (*fb, fc.clone());
                        ctx.pair_violation(fmt, &fc, &c, "equal-values-differ", &extra, fb, bits);
                    }
                }
            }
        }
        ctx.rep.add("routes.distinct_number_triples", routes.len() as u64);
        if routes.len() > 1 {
            ctx.rep.count("bases.with_several_internal_routes");
        }
        if tiers.len() > 1 {
            ctx.rep.count("bases.with_tier_changes");
        }
    }
    for k in ["bases", "spelling.POSITIONAL", "bases.longer_than_3000_digits", "spelling.SPLIT", "spelling.INT_ZEROS", "spelling.FRAC_ZEROS", "spelling.TRAILING_ZEROS", "bases.with_several_internal_routes", "bases.with_tier_changes", "path.slow_neg", "path.slow_pos", "path.fast"] {
        ctx.rep.require(k);
    }
}

fn main() {
    let args = Args::parse();
    util::quiet_panics();
    let prop = args.str("prop", "C01");
    let seed = args.u64("seed", 1);
    let shard = args.shard();
    let rep = Report::new(&prop, &args);
    let mut ctx = Ctx {
        prop: prop.clone(),
        rep,
        replay_dir: args.str("replay-dir", "/verif/replays"),
        corpus64: args.get("corpus64").map(gen::read_corpus).unwrap_or_default(),
        corpus32: args.get("corpus32").map(gen::read_corpus).unwrap_or_default(),
        corpus64s: args.get("corpus64s").map(gen::read_corpus).unwrap_or_default(),
        corpus32s: args.get("corpus32s").map(gen::read_corpus).unwrap_or_default(),
        corpus_limb: args.get("corpus-limb").map(gen::read_digit_corpus).unwrap_or_default(),
        binades64: HashSet::new(),
        binades32: HashSet::new(),
        log_boundary: 0,
        log_other: 0,
        announce: args.has("announce"),
    };
    ctx.rep.extra.insert("config".into(), json_str(config_name()));
    ctx.rep.extra.insert("profile".into(), json_str(profile_name()));
    // property name participates in the stream so that properties do not all see the same cases
    let mut ph = Hasher64::new();
    ph.bytes(prop.as_bytes());
    let mut rng = Rng::new(seed).fork(ph.finish()).fork(shard.0 + 1);

    if let Some(f) = args.get("pair-file") {
        let txt = std::fs::read_to_string(f).expect("pair file");
        let mut it = txt.lines();
        let a = Case::from_key(it.next().expect("first key").trim());
        let b = Case::from_key(it.next().expect("second key").trim());
        let fmt = mlverif::fmt_of(&args.str("fmt", "f64"));
        let (da, db) = (a.dec(), b.dec());
        let (ra, _) = ctx.run(fmt, &a);
        let (rb, _) = ctx.run(fmt, &b);
        let ok = match (ra, rb) {
            (Ok(x), Ok(y)) => {
                println!("REPLAY {} {} -> {}; {} -> {}", fmt.name, a.show(), bits_hex(fmt, x), b.show(), bits_hex(fmt, y));
                match da.cmp(&db) {
                    std::cmp::Ordering::Less => x <= y,
                    std::cmp::Ordering::Equal => x == y,
                    std::cmp::Ordering::Greater => x >= y,
                }
            }
            _ => false,
        };
        if !ok {
            ctx.rep.violation("replay", "pair relation violated", f, "");
        }
        println!("REPLAY pair -> {}", if ok { "held" } else { "VIOLATED" });
        ctx.rep.finish();
        return;
    }
    if let Some(f) = args.get("case-file") {
        // replay a single case
        let key = std::fs::read_to_string(f).expect("case file");
        let c = Case::from_key(key.trim());
        let fmt = mlverif::fmt_of(&args.str("fmt", "f64"));
        let ok = match prop.as_str() {
            "C04" => {
                nopanic_one(&mut ctx, fmt, &c);
                ctx.rep.nviol == 0
            }
            _ => ctx.judge(fmt, &c),
        };
        println!("REPLAY {} {} -> {}", fmt.name, c.show(), if ok { "held" } else { "VIOLATED" });
        ctx.rep.finish();
        return;
    }

    match prop.as_str() {
        "C01" | "C02" | "C06" | "C07" => mode_oracle(&mut ctx, &args, &mut rng, shard),
        "C03" => mode_roundtrip(&mut ctx, &args, &mut rng, shard),
        "C04" => mode_nopanic(&mut ctx, &args, &mut rng, shard),
        "C09" => mode_monotonic(&mut ctx, &args, &mut rng),
        "C10" => mode_resplit(&mut ctx, &args, &mut rng),
        "C05" => {
            // the stream must be identical in every configuration: fork by shard only
            mode_dump(&mut ctx, &args, &mut rng)
        }
        _ => panic!("eng_parse: unknown property {}", prop),
    }
    let b64 = ctx.binades64.len();
    let b32 = ctx.binades32.len();
    ctx.rep.extra.insert("binades_f64_seen".into(), format!("{}", b64));
    ctx.rep.extra.insert("binades_f32_seen".into(), format!("{}", b32));
    ctx.rep.finish();
}
