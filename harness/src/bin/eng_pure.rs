//! C15: no heap allocation inside `parse_float` unless the `alloc` feature is on
//!      (counting global allocator armed exactly around each call).
//! C16: the result is a pure function of the byte sequence and the exponent: iterator shape,
//!      buffer address/alignment, previous calls / stack contents, and concurrent callers.

use mlverif::alloc_mon::{self, CountingAlloc};
use mlverif::gen::{self, Case};
use mlverif::oracle::{Fmt, F32, F64};
use mlverif::rng::{Hasher64, Rng};
use mlverif::sink;
use mlverif::util::{self, json_str, Args, Report};
use mlverif::{bits_hex, config_name, profile_name};
use std::collections::VecDeque;

#[global_allocator]
static ALLOC: CountingAlloc = CountingAlloc;

const ALLOC_CFG: bool = cfg!(feature = "alloc");

fn parse_iters<'a, I1, I2>(fmt: Fmt, i: I1, f: I2, e: i32) -> u64
where
    I1: Iterator<Item = &'a u8> + Clone,
    I2: Iterator<Item = &'a u8> + Clone,
{
    if fmt.mant_bits == 52 {
        minimal_lexical::parse_float::<f64, _, _>(i, f, e).to_bits()
    } else {
        minimal_lexical::parse_float::<f32, _, _>(i, f, e).to_bits() as u64
    }
}

/// A hand-written cloneable iterator: pessimistic size_hint, default count/nth/fold, non-contiguous storage.
#[derive(Clone)]
struct Chunky<'a> {
    chunks: &'a [Vec<u8>],
    ci: usize,
    bi: usize,
}
impl<'a> Iterator for Chunky<'a> {
    type Item = &'a u8;
    fn next(&mut self) -> Option<&'a u8> {
        while self.ci < self.chunks.len() {
            if self.bi < self.chunks[self.ci].len() {
                let r = &self.chunks[self.ci][self.bi];
                self.bi += 1;
                return Some(r);
            }
            self.ci += 1;
            self.bi = 0;
        }
        None
    }
    fn size_hint(&self) -> (usize, Option<usize>) {
        (0, None)
    }
}

/// A cloneable iterator that is NOT fused: after its first `None` it starts again from the beginning (used for a diagnostic
/// only: the unchanged crate polls after `None` in one corner, so non-fused iterators are outside "well-behaved").
#[derive(Clone)]
struct Rewinding<'a> {
    data: &'a [u8],
    pos: usize,
}
impl<'a> Iterator for Rewinding<'a> {
    type Item = &'a u8;
    fn next(&mut self) -> Option<&'a u8> {
        if self.pos < self.data.len() {
            self.pos += 1;
            Some(&self.data[self.pos - 1])
        } else {
            self.pos = 0;
            None
        }
    }
}

/// A fused, cloneable iterator whose `next()` itself parses another number when it reaches position `fire_at`: a nested
/// (re-entrant) call of the parser on the same thread while the outer call is in progress.
#[derive(Clone)]
struct Reentrant<'a> {
    data: &'a [u8],
    pos: usize,
    fire_at: usize,
    inner: &'a Case,
    inner_fmt: Fmt,
}
impl<'a> Iterator for Reentrant<'a> {
    type Item = &'a u8;
    fn next(&mut self) -> Option<&'a u8> {
        if self.pos == self.fire_at {
            std::hint::black_box(parse_iters(self.inner_fmt, self.inner.int.iter(), self.inner.frac.iter(), self.inner.exp));
        }
        if self.pos < self.data.len() {
            self.pos += 1;
            Some(&self.data[self.pos - 1])
        } else {
            self.pos = self.data.len() + 1;
            None
        }
    }
}

fn chunked(rng: &Rng, b: &[u8]) -> Vec<Vec<u8>> {
    let mut out = Vec::new();
    let mut i = 0;
    while i < b.len() {
        let n = match rng.below(4) {
            0 => 1,
            1 => 19,
            2 => rng.range(1, 40) as usize,
            _ => rng.range(1, 300) as usize,
        }
        .min(b.len() - i);
        out.push(b[i..i + n].to_vec());
        if rng.chance(1, 4) {
            out.push(Vec::new()); // empty chunk
        }
        i += n;
    }
    out
}

struct Ctx {
    rep: Report,
    replay_dir: String,
    prop: String,
}

impl Ctx {
    fn violation(&mut self, fmt: Fmt, c: &Case, what: &str, observed: &str, expected: &str) {
        let sig = format!("{}:{}:{:016x}", what.split(' ').next().unwrap_or(what), fmt.name, c.hash());
        let file = format!("{}/{}-{}-{}-{:016x}.json", self.replay_dir, self.prop, config_name(), profile_name(), c.hash());
        let body = format!(
            "{{\"property\":{},\"engine\":\"eng_pure\",\"config\":{},\"profile\":{},\"fmt\":{},\"what\":{},\"input\":{},\"observed\":{},\"expected\":{},\"case_key\":{}}}\n",
            json_str(&self.prop),
            json_str(config_name()),
            json_str(profile_name()),
            json_str(fmt.name),
            json_str(what),
            json_str(&c.show()),
            json_str(observed),
            json_str(expected),
            json_str(&c.key())
        );
        let _ = std::fs::create_dir_all(&self.replay_dir);
        if self.rep.violations.len() < 40 {
            // replay files only for the witnesses that are reported (the rest are counted)
            let _ = std::fs::write(&file, body);
        }
        let detail = format!("\"input\":{},\"fmt\":{},\"observed\":{},\"expected\":{}", json_str(&c.show()), json_str(fmt.name), json_str(observed), json_str(expected));
        self.rep.violation(&sig, what, &file, &detail);
    }
}

fn next_case(rng: &Rng, fmt: Fmt, lean: bool) -> Case {
    let mut r = rng.fork(rng.next());
    let c = match rng.below(10) {
        0 | 1 | 2 | 3 => gen::g1(&mut r, fmt),
        4 => gen::g3(&mut r, fmt),
        5 => gen::g5(&mut r, fmt),
        6 => gen::g_seam(&mut r, fmt),
        _ => gen::g9(&mut r, fmt),
    };
    if lean && c.ndigits() > 900 {
        return Case::new(b"123456789012345678901234567890", b"5", -3, "SHORTENED");
    }
    c
}

// ------------------------------------------------------------------------------------------ C15

fn c15_one(ctx: &mut Ctx, rng: &Rng, fmt: Fmt, c: &Case) {
    // several iterator shapes; everything is built before the monitor is armed
    let shape = rng.below(5);
    // for the re-entrant shape: an inner slow-path-prone input, built before the monitor is armed
    let inner = if shape == 4 { Some(next_case(rng, if rng.chance(1, 2) { F64 } else { F32 }, true)) } else { None };
    let ci = chunked(rng, &c.int);
    let cf = chunked(rng, &c.frac);
    let dq: VecDeque<u8> = c.frac.iter().copied().collect();
    sink::reset();
    let (r, events, bytes) = match shape {
        0 => alloc_mon::watch(|| util::catch(|| parse_iters(fmt, c.int.iter(), c.frac.iter(), c.exp))),
        1 => alloc_mon::watch(|| util::catch(|| parse_iters(fmt, Chunky { chunks: &ci, ci: 0, bi: 0 }, Chunky { chunks: &cf, ci: 0, bi: 0 }, c.exp))),
        2 => alloc_mon::watch(|| util::catch(|| parse_iters(fmt, c.int.iter(), dq.iter(), c.exp))),
        4 => {
            // nested call: the digit iterators themselves parse another number half-way through (and at their end)
            let inn = inner.as_ref().unwrap();
            let ifmt = if inn.tag.len() % 2 == 0 { F64 } else { F32 };
            let (fi, ff) = (c.int.len() / 2, c.frac.len());
            alloc_mon::watch(|| {
                util::catch(|| {
                    parse_iters(fmt, Reentrant { data: &c.int, pos: 0, fire_at: fi, inner: inn, inner_fmt: ifmt }, Reentrant { data: &c.frac, pos: 0, fire_at: ff, inner: inn, inner_fmt: ifmt }, c.exp)
                })
            })
        }
        _ => {
            let (a, b) = c.int.split_at(c.int.len() / 2);
            alloc_mon::watch(|| util::catch(|| parse_iters(fmt, a.iter().chain(b.iter()), c.frac.iter().filter(|_| true), c.exp)))
        }
    };
    let p = sink::path();
    ctx.rep.evals += 1;
    ctx.rep.count(&format!("path.{}", p.tier()));
    if p.large_mul {
        ctx.rep.count("path.large_pow5_step");
    }
    if p.slow_digits > if fmt.mant_bits == 52 { <f64 as minimal_lexical::Float>::MAX_DIGITS as u64 } else { <f32 as minimal_lexical::Float>::MAX_DIGITS as u64 } {
        ctx.rep.count("path.sticky_digit");
    }
    if c.ndigits() >= 10_000 {
        ctx.rep.count("digits.ge10k");
    }
    ctx.rep.count(&format!("shape.{}", shape));
    if !p.fast {
        ctx.rep.distinct(c.hash() ^ fmt.mant_bits as u64 ^ shape << 60);
    }
    ctx.rep.sample(|| format!("{{\"fmt\":{},\"case\":{},\"tier\":{},\"allocator_events\":{}}}", json_str(fmt.name), c.json(), json_str(p.tier()), events));
    if r.is_err() {
        // a panic allocates in std's machinery; valid input must not panic anyway (C04) - report it here too
        ctx.violation(fmt, c, "panic during an armed call", "panic", "a value");
        return;
    }
    if ALLOC_CFG {
        // sensitivity control: the heap back-end must be visible to the monitor on big-integer paths
        if p.slow_pos || p.slow_neg {
            ctx.rep.count("control.slow_path_calls");
            if events > 0 {
                ctx.rep.count("control.slow_path_calls_with_allocator_events");
            }
        }
        ctx.rep.add("control.allocator_events", events);
    } else if events != 0 {
        ctx.violation(fmt, c, &format!("heap-allocation {} allocator events ({} bytes) inside parse_float via {}", events, bytes, p.tier()), &format!("{} events", events), "0 events");
    }
}

fn mode_c15(ctx: &mut Ctx, rng: &Rng) {
    // self-test of the monitor: a Vec allocation inside the window must be seen, the sink must not allocate
    let (_, ev, _) = alloc_mon::watch(|| {
        let v: Vec<u64> = Vec::with_capacity(7);
        std::hint::black_box(&v);
    });
    if ev == 0 {
        ctx.rep.inconclusive("allocation monitor did not see a Vec allocation: monitor broken");
    }
    let (_, ev2, _) = alloc_mon::watch(|| {
        mlverif::sink::minimal_lexical_verif_event(1, 2, 3, 4);
        sink::reset();
        let _ = sink::path();
    });
    if ev2 != 0 {
        ctx.rep.inconclusive("the hook sink allocates: monitor would raise false alarms");
    }
    ctx.rep.count("monitor.selftest");
    let mut i = 0u64;
    loop {
        if i % 64 == 0 && ctx.rep.out_of_time() {
            break;
        }
        i += 1;
        let fmt = if i % 2 == 0 { F64 } else { F32 };
        let c = next_case(rng, fmt, false);
        c15_one(ctx, rng, fmt, &c);
    }
    for k in ["path.fast", "path.moderate", "path.slow_pos", "path.slow_neg", "path.sticky_digit", "digits.ge10k", "shape.0", "shape.1", "shape.2", "shape.3", "shape.4"] {
        ctx.rep.require(k);
    }
    if !cfg!(feature = "compact") {
        ctx.rep.require("path.large_pow5_step");
    }
    if ALLOC_CFG {
        ctx.rep.require("control.slow_path_calls_with_allocator_events");
    }
}

// ------------------------------------------------------------------------------------------ C16

#[inline(never)]
fn poison_stack(pattern: u8, seed: u64) -> u64 {
    // 48 KiB of this frame's stack, written with volatile stores so it is really touched
    let mut buf = [0u8; 48 * 1024];
    let mut x = seed | 1;
    for b in buf.iter_mut() {
        let v = match pattern {
            0 => 0x00,
            1 => 0xff,
            2 => 0xaa,
            _ => {
                x ^= x << 13;
                x ^= x >> 7;
                x ^= x << 17;
                x as u8
            }
        };
        unsafe { std::ptr::write_volatile(b, v) };
    }
    let mut acc = 0u64;
    for i in (0..buf.len()).step_by(4096) {
        acc = acc.wrapping_add(unsafe { std::ptr::read_volatile(&buf[i]) } as u64);
    }
    acc
}

static STATIC_BUF: [u8; 64] = *b"0000000012345678901234567890123456789012345678901234567890123456";

fn c16_shapes(ctx: &mut Ctx, rng: &Rng, fmt: Fmt, c: &Case, lean: bool) -> u64 {
    // reference: plain slice iterators
    sink::reset();
    let want = match util::catch(|| parse_iters(fmt, c.int.iter(), c.frac.iter(), c.exp)) {
        Ok(b) => b,
        Err(m) => {
            ctx.violation(fmt, c, "panic", &m, "a value");
            return 0;
        }
    };
    let want_path = sink::path();
    ctx.rep.evals += 1;
    ctx.rep.count(&format!("path.{}", want_path.tier()));
    if !lean && rng.chance(1, 8) {
        // the same call on a brand-new thread (fresh thread-locals, fresh stack)
        let (i2, f2, e2) = (c.int.clone(), c.frac.clone(), c.exp);
        let fresh = std::thread::spawn(move || util::catch(|| parse_iters(fmt, i2.iter(), f2.iter(), e2))).join();
        ctx.rep.count("variant.fresh_thread");
        match fresh {
            Ok(Ok(b)) if b == want => {}
            Ok(Ok(b)) => ctx.violation(fmt, c, "result-differs on a fresh thread", &bits_hex(fmt, b), &bits_hex(fmt, want)),
            _ => ctx.violation(fmt, c, "panic on a fresh thread", "panic", &bits_hex(fmt, want)),
        }
    }
    let mut check = |ctx: &mut Ctx, name: &str, got: Result<u64, String>, path: Option<sink::Path>| {
        ctx.rep.evals += 1;
        ctx.rep.count(&format!("variant.{}", name));
        match got {
            Ok(b) if b == want => {
                if let Some(p) = path {
                    if p != want_path {
                        // a diagnostic, not a verdict: internal routes may legitimately differ (e.g. a correct cache)
                        ctx.rep.count("diag.hook_trace_differs");
                    }
                }
            }
            Ok(b) => ctx.violation(fmt, c, &format!("result-differs via {}", name), &bits_hex(fmt, b), &bits_hex(fmt, want)),
            Err(m) => ctx.violation(fmt, c, &format!("panic via {}", name), &m, &bits_hex(fmt, want)),
        }
    };
    let (int, frac, e) = (&c.int[..], &c.frac[..], c.exp);
    // (a) iterator shapes
    let all: Vec<u64> = if lean { vec![rng.below(13)] } else { (0..13).collect() };
    for shape in all {
        sink::reset();
        match shape {
            0 => {
                // chain of pieces cut at random places (inside and outside the 19-digit window)
                let cut = |b: &'_ [u8]| -> usize {
                    if b.is_empty() {
                        0
                    } else {
                        match rng.below(3) {
                            0 => rng.range(0, b.len().min(19) as i64) as usize,
                            1 => rng.range(0, b.len() as i64) as usize,
                            _ => b.len().min(19),
                        }
                    }
                };
                let (ci, cf) = (cut(int), cut(frac));
                let (i1, i2) = int.split_at(ci);
                let (f1, f2) = frac.split_at(cf);
                let empty: &[u8] = &[];
                let r = util::catch(|| parse_iters(fmt, i1.iter().chain(empty.iter()).chain(i2.iter()), f1.iter().chain(f2.iter()).chain(empty.iter()), e));
                check(ctx, "chain", r, Some(sink::path()));
            }
            1 => {
                // filter over a buffer with separators
                let sep = |b: &[u8]| -> Vec<u8> {
                    let mut v = Vec::with_capacity(b.len() * 2);
                    for &x in b {
                        if rng.chance(1, 3) {
                            v.push(b'_');
                        }
                        v.push(x);
                    }
                    v.push(b'_');
                    v
                };
                let (si, sf) = (sep(int), sep(frac));
                let r = util::catch(|| parse_iters(fmt, si.iter().filter(|&&x| x != b'_'), sf.iter().filter(|&&x| x != b'_'), e));
                check(ctx, "filter", r, Some(sink::path()));
            }
            2 => {
                // VecDeque whose ring buffer is wrapped
                let mk = |b: &[u8]| -> VecDeque<u8> {
                    let mut d: VecDeque<u8> = VecDeque::with_capacity(b.len() + 8);
                    for _ in 0..5 {
                        d.push_back(b'x');
                    }
                    for _ in 0..5 {
                        d.pop_front();
                    }
                    let k = b.len() / 2;
                    for &x in &b[k..] {
                        d.push_back(x);
                    }
                    for &x in b[..k].iter().rev() {
                        d.push_front(x);
                    }
                    d
                };
                let (di, df) = (mk(int), mk(frac));
                let r = util::catch(|| parse_iters(fmt, di.iter(), df.iter(), e));
                check(ctx, "vecdeque", r, Some(sink::path()));
            }
            3 => {
                let ri: Vec<u8> = int.iter().rev().copied().collect();
                let rf: Vec<u8> = frac.iter().rev().copied().collect();
                let r = util::catch(|| parse_iters(fmt, ri.iter().rev(), rf.iter().rev(), e));
                check(ctx, "rev", r, Some(sink::path()));
            }
            4 => {
                // skip / take / step_by over padded and interleaved buffers
                let mut pi = vec![b'9'; 3];
                pi.extend_from_slice(int);
                pi.extend_from_slice(b"777");
                let mut pf = Vec::with_capacity(frac.len() * 2);
                for &x in frac {
                    pf.push(x);
                    pf.push(b'5');
                }
                let r = util::catch(|| parse_iters(fmt, pi.iter().skip(3).take(int.len()), pf.iter().step_by(2), e));
                check(ctx, "skip_take_step_by", r, Some(sink::path()));
            }
            5 => {
                let (ci, cf) = (chunked(rng, int), chunked(rng, frac));
                let r = util::catch(|| parse_iters(fmt, Chunky { chunks: &ci, ci: 0, bi: 0 }, Chunky { chunks: &cf, ci: 0, bi: 0 }, e));
                check(ctx, "custom_noncontiguous_pessimistic_size_hint", r, Some(sink::path()));
            }
            6 => {
                // (b) other addresses / alignments: heap copies at offsets 0..7, a stack copy, static storage
                let off = rng.below(8) as usize;
                let mut hb = vec![b'0'; off];
                hb.extend_from_slice(int);
                let off2 = rng.below(8) as usize;
                let mut hf = vec![b'0'; off2];
                hf.extend_from_slice(frac);
                let r = util::catch(|| parse_iters(fmt, hb[off..].iter(), hf[off2..].iter(), e));
                check(ctx, "heap_offset", r, Some(sink::path()));
                if int.len() <= 56 && frac.len() <= 56 {
                    let mut sb = [0u8; 128];
                    sb[off..off + int.len()].copy_from_slice(int);
                    sb[64 + off2..64 + off2 + frac.len()].copy_from_slice(frac);
                    sink::reset();
                    let r = util::catch(|| parse_iters(fmt, sb[off..off + int.len()].iter(), sb[64 + off2..64 + off2 + frac.len()].iter(), e));
                    check(ctx, "stack_buffer", r, Some(sink::path()));
                }
            }
            7 => {
                // DIAGNOSTIC ONLY, never a verdict. Iterators that are not fused: std's map_while over the whole literal
                // (integer '.' fraction 'e' ...: it stops at the first non-digit and would go on with the following digits if
                // polled again), scan, and a cursor that rewinds after None. The unchanged crate itself polls the fraction
                // iterator again after None (parse_number: an all-zero fraction of >= 20 digits with an empty integer part), so
                // "well-behaved" has to mean fused; what non-fused iterators do is recorded, not judged.
                let mut text = int.to_vec();
                text.push(b'.');
                text.extend_from_slice(frac);
                text.extend_from_slice(b"e77");
                let ftext = &text[int.len() + 1..];
                let mut diag = |ctx: &mut Ctx, name: &str, r: Result<u64, String>| {
                    ctx.rep.evals += 1;
                    ctx.rep.count(&format!("diag.{}", name));
                    if r != Ok(want) {
                        ctx.rep.count(&format!("diag.{}.differs_from_slice_iterators", name));
                    }
                };
                let r = util::catch(|| parse_iters(fmt, text.iter().map_while(|c| if c.is_ascii_digit() { Some(c) } else { None }), ftext.iter().map_while(|c| if c.is_ascii_digit() { Some(c) } else { None }), e));
                diag(ctx, "nonfused_map_while_over_literal", r);
                let r = util::catch(|| parse_iters(fmt, Rewinding { data: int, pos: 0 }, Rewinding { data: frac, pos: 0 }, e));
                diag(ctx, "nonfused_rewinding_cursor", r);
                let r = util::catch(|| parse_iters(fmt, text.iter().scan((), |_, c| if c.is_ascii_digit() { Some(c) } else { None }), Rewinding { data: frac, pos: 0 }, e));
                diag(ctx, "nonfused_scan_over_literal", r);
            }
            11 => {
                // items that SHARE addresses: every digit mapped through a static table (equal digits are the same
                // reference), and zero padding served from one shared byte (`repeat(&ZERO).take(n)`) - fused, cloneable,
                // same byte sequence; only code that identifies a position by the address of an item can tell
                static TABLE: [u8; 10] = *b"0123456789";
                static ZERO: u8 = b'0';
                if int.iter().chain(frac.iter()).all(|c| c.is_ascii_digit()) {
                    let r = util::catch(|| parse_iters(fmt, int.iter().map(|&c| &TABLE[(c - b'0') as usize]), frac.iter().map(|&c| &TABLE[(c - b'0') as usize]), e));
                    check(ctx, "shared_addresses_digit_table", r, Some(sink::path()));
                    // trailing zeros of the integer part and leading zeros of the fraction from the shared byte
                    let tz = int.iter().rev().take_while(|&&c| c == b'0').count();
                    let lz = frac.iter().take_while(|&&c| c == b'0').count();
                    let (ih, ft) = (&int[..int.len() - tz], &frac[lz..]);
                    sink::reset();
                    let r = util::catch(|| {
                        parse_iters(fmt, ih.iter().chain(std::iter::repeat(&ZERO).take(tz)), std::iter::repeat(&ZERO).take(lz).chain(ft.iter()), e)
                    });
                    check(ctx, "shared_addresses_repeat_zero", r, Some(sink::path()));
                    ctx.rep.add("shared_addresses.zero_items", (tz + lz) as u64);
                }
            }
            12 => {
                // re-entrancy: the digit iterators parse another (sibling-like) number while the outer call is in progress
                let inn = next_case(rng, if rng.chance(1, 2) { F64 } else { F32 }, true);
                let ifmt = if rng.chance(1, 2) { F64 } else { F32 };
                let (fi, ff) = (rng.below(int.len() as u64 + 1) as usize, rng.below(frac.len() as u64 + 1) as usize);
                let r = util::catch(|| {
                    parse_iters(fmt, Reentrant { data: int, pos: 0, fire_at: fi, inner: &inn, inner_fmt: ifmt }, Reentrant { data: frac, pos: 0, fire_at: ff, inner: &inn, inner_fmt: ifmt }, e)
                });
                check(ctx, "reentrant_nested_parse", r, None);
            }
            8 => {
                // chains whose size_hint has a non-zero but inexact lower bound: an exact piece (slice) chained
                // with an inexact one (filter / take_while / flat_map), in both orders, cut inside and past digit 20
                let cut = |b: &[u8]| -> usize {
                    if b.is_empty() {
                        0
                    } else {
                        match rng.below(4) {
                            0 => b.len().min(20),
                            1 => b.len().min(21 + rng.below(5) as usize),
                            2 => rng.range(0, b.len() as i64) as usize,
                            _ => b.len() / 2,
                        }
                    }
                };
                let (ci, cf) = (cut(int), cut(frac));
                let (i1, i2) = int.split_at(ci);
                let (f1, f2) = frac.split_at(cf);
                let r = util::catch(|| parse_iters(fmt, i1.iter().filter(|_| true).chain(i2.iter()), f1.iter().chain(f2.iter().filter(|_| true)), e));
                check(ctx, "chain_inexact_then_exact", r, Some(sink::path()));
                sink::reset();
                let r = util::catch(|| parse_iters(fmt, i1.iter().chain(i2.iter().take_while(|_| true)), f1.iter().take_while(|_| true).chain(f2.iter()), e));
                check(ctx, "chain_exact_then_take_while", r, Some(sink::path()));
            }
            9 => {
                // flat_map over chunks (lower bound = remaining of the current front chunk only), peekable, fuse, by_ref-free map
                let (ci, cf) = (chunked(rng, int), chunked(rng, frac));
                let r = util::catch(|| parse_iters(fmt, ci.iter().flat_map(|c| c.iter()), cf.iter().flat_map(|c| c.iter()), e));
                check(ctx, "flat_map_chunks", r, Some(sink::path()));
                sink::reset();
                let r = util::catch(|| parse_iters(fmt, int.iter().peekable(), frac.iter().fuse().skip_while(|_| false), e));
                check(ctx, "peekable_skip_while", r, Some(sink::path()));
            }
            _ => {
                // (c) stack contents and call history: poison, or a long slow-path parse, right before the call
                let pat = rng.below(4) as u8;
                std::hint::black_box(poison_stack(pat, rng.next()));
                sink::reset();
                let r = util::catch(|| parse_iters(fmt, int.iter(), frac.iter(), e));
                check(ctx, &format!("after_stack_poison_{}", pat), r, Some(sink::path()));
                // a sibling: same digit count, same exponent, one early digit changed (same binade and big-integer
                // sizes, different float) - what a too-coarsely keyed cache or stale scratch data would confuse
                if int.len() + frac.len() >= 2 {
                    let mut si = int.to_vec();
                    let mut sf = frac.to_vec();
                    let n = si.len() + sf.len();
                    let pos = 1 + rng.below((n.min(17) - 1).max(1) as u64) as usize;
                    let sfl = sf.len();
                    let sil = si.len();
                    let d = if pos < sil { &mut si[pos] } else { &mut sf[(pos - sil).min(sfl.saturating_sub(1))] };
                    *d = b'0' + ((*d - b'0' + 1 + rng.below(8) as u8) % 10);
                    let _ = util::catch(|| parse_iters(fmt, si.iter(), sf.iter(), e));
                    sink::reset();
                    let r = util::catch(|| parse_iters(fmt, int.iter(), frac.iter(), e));
                    check(ctx, "after_sibling_parse", r, Some(sink::path()));
                }
                let prev = next_case(rng, if rng.chance(1, 2) { F64 } else { F32 }, lean);
                let _ = util::catch(|| parse_iters(if rng.chance(1, 2) { F64 } else { F32 }, prev.int.iter(), prev.frac.iter(), prev.exp));
                sink::reset();
                let r = util::catch(|| parse_iters(fmt, int.iter(), frac.iter(), e));
                check(ctx, "after_other_parse", r, Some(sink::path()));
            }
        }
    }
    want
}

fn static_probe(ctx: &mut Ctx) {
    // static storage: digits 12345678901234567890... at offset 8
    let c = Case::new(&STATIC_BUF[8..30], &STATIC_BUF[30..40], -5, "STATIC");
    let a = parse_iters(F64, STATIC_BUF[8..30].iter(), STATIC_BUF[30..40].iter(), -5);
    let b = parse_iters(F64, c.int.iter(), c.frac.iter(), -5);
    ctx.rep.count("variant.static_storage");
    if a != b {
        ctx.violation(F64, &c, "result-differs via static storage", &bits_hex(F64, a), &bits_hex(F64, b));
    }
}

fn mode_c16(ctx: &mut Ctx, rng: &Rng, args: &Args) {
    let lean = args.has("lean");
    let max = args.u64("max-evals", u64::MAX);
    static_probe(ctx);
    // (d) concurrency: a shared read-only set parsed by several threads, compared with the sequential results
    let nthreads = args.u64("threads", 8) as usize;
    let set_size = args.u64("set", if lean { 24 } else { 600 }) as usize;
    let rounds = args.u64("rounds", if lean { 1 } else { u64::MAX });
    let mut acc = Hasher64::new();
    let mut round = 0u64;
    loop {
        if round >= rounds || ctx.rep.out_of_time() || ctx.rep.evals >= max {
            break;
        }
        round += 1;
        // sequential phase: shapes / addresses / history on fresh cases
        let mut set: Vec<(Fmt, Case, u64)> = Vec::with_capacity(set_size);
        for i in 0..set_size {
            let fmt = if i % 2 == 0 { F64 } else { F32 };
            let c = next_case(rng, fmt, lean);
            let want = c16_shapes(ctx, rng, fmt, &c, lean);
            ctx.rep.distinct(c.hash() ^ fmt.mant_bits as u64);
            acc.u64(want);
            ctx.rep.sample(|| format!("{{\"fmt\":{},\"case\":{},\"bits\":{}}}", json_str(fmt.name), c.json(), json_str(&bits_hex(fmt, want))));
            set.push((fmt, c, want));
        }
        // concurrent phase
        let set = std::sync::Arc::new(set);
        let order = std::sync::Arc::new(std::sync::atomic::AtomicU64::new(0));
        let mut handles = Vec::new();
        for t in 0..nthreads {
            let set = set.clone();
            let order = order.clone();
            handles.push(std::thread::spawn(move || {
                let mut bad: Vec<(usize, u64)> = Vec::new();
                let mut interleave = Hasher64::new();
                // each thread walks the set from a different starting point and direction
                let n = set.len();
                for k in 0..n {
                    let i = if t % 2 == 0 { (k + t * 7) % n } else { (n - 1 - k + t * 5) % n };
                    let (fmt, c, want) = &set[i];
                    let got = parse_iters(*fmt, c.int.iter(), c.frac.iter(), c.exp);
                    if got != *want {
                        bad.push((i, got));
                    }
                    // record how this thread's progress interleaved with the others'
                    let seen = order.fetch_add(1, std::sync::atomic::Ordering::Relaxed);
                    interleave.u64(seen);
                }
                (bad, interleave.finish())
            }));
        }
        let mut sigs: Vec<u64> = Vec::new();
        for h in handles {
            match h.join() {
                Ok((bad, sig)) => {
                    sigs.push(sig);
                    for (i, got) in bad {
                        let (fmt, c, want) = &set[i];
                        ctx.violation(*fmt, c, "result-differs under concurrency", &bits_hex(*fmt, got), &bits_hex(*fmt, *want));
                    }
                }
                Err(_) => ctx.violation(F64, &set[0].1, "panic in a concurrent caller", "panic", "a value"),
            }
        }
        ctx.rep.add("concurrent.calls", (nthreads * set.len()) as u64);
        ctx.rep.evals += (nthreads * set.len()) as u64;
        ctx.rep.count("concurrent.rounds");
        let mut hs = Hasher64::new();
        for s in &sigs {
            hs.u64(*s);
        }
        ctx.rep.distinct(hs.finish() | 1 << 63);
        ctx.rep.count("concurrent.interleaving_signatures");
    }
    ctx.rep.extra.insert("threads".into(), format!("{}", nthreads));
    ctx.rep.extra.insert("result_hash".into(), format!("\"{:016x}\"", acc.finish()));
    if lean {
        ctx.rep.extra.insert("lean".into(), "true".into());
    } else {
        for k in ["variant.chain", "variant.filter", "variant.vecdeque", "variant.rev", "variant.skip_take_step_by", "variant.custom_noncontiguous_pessimistic_size_hint", "variant.chain_inexact_then_exact", "variant.chain_exact_then_take_while", "variant.flat_map_chunks", "variant.peekable_skip_while", "variant.heap_offset", "variant.stack_buffer", "variant.after_other_parse", "variant.after_sibling_parse", "variant.fresh_thread", "variant.after_stack_poison_0", "variant.after_stack_poison_3", "concurrent.calls", "path.slow_neg", "path.slow_pos", "path.fast", "path.moderate"] {
            ctx.rep.require(k);
        }
    }
}

fn main() {
    let args = Args::parse();
    util::quiet_panics();
    let prop = args.str("prop", "C15");
    let seed = args.u64("seed", 1);
    let shard = args.shard();
    let rep = Report::new(&prop, &args);
    let mut ctx = Ctx { rep, replay_dir: args.str("replay-dir", "/verif/replays"), prop: prop.clone() };
    ctx.rep.extra.insert("config".into(), json_str(config_name()));
    ctx.rep.extra.insert("profile".into(), json_str(profile_name()));
    let rng = Rng::new(seed).fork(if prop == "C15" { 0xC15 } else { 0xC16 }).fork(shard.0 + 1);
    if let Some(f) = args.get("case-file") {
        let key = std::fs::read_to_string(f).expect("case file");
        let c = Case::from_key(key.trim());
        let fmt = mlverif::fmt_of(&args.str("fmt", "f64"));
        if prop == "C15" {
            for _ in 0..4 {
                c15_one(&mut ctx, &rng, fmt, &c);
            }
        } else {
            for _ in 0..4 {
                c16_shapes(&mut ctx, &rng, fmt, &c, false);
            }
        }
        println!("REPLAY {} {} -> {}", fmt.name, c.show(), if ctx.rep.nviol == 0 { "held" } else { "VIOLATED" });
        ctx.rep.finish();
        return;
    }
    match prop.as_str() {
        "C15" => mode_c15(&mut ctx, &rng),
        "C16" => mode_c16(&mut ctx, &rng, &args),
        _ => panic!("eng_pure: unknown property"),
    }
    ctx.rep.finish();
}
