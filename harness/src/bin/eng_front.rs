//! C19: the string front-end shipped with the repository (example, fuzz target, integration
//! test and the correctness tools' copies) + the library, against a reference scanner written
//! from the grammar and the exact rounding oracle.

#![allow(dead_code, unused_imports, clippy::all)]

use mlverif::gen;
use mlverif::oracle::{self, Dec, Fmt, F32, F64};
use mlverif::rng::{Hasher64, Rng};
use mlverif::util::{self, json_str, Args, Report};
use mlverif::{bits_hex, config_name, profile_name};

macro_rules! subject {
    ($m:ident, $f:literal) => {
        #[allow(warnings)]
        mod $m {
            include!(concat!(env!("OUT_DIR"), "/", $f, ".rs"));
        }
    };
}
subject!(front_example, "front_example");
subject!(front_fuzz, "front_fuzz");
subject!(front_itest, "front_itest");
subject!(front_golang, "front_golang");
subject!(front_unittests, "front_unittests");
subject!(front_random, "front_random");
subject!(front_rng, "front_rng");

struct Subject {
    name: &'static str,
    available: bool,
    specials: bool,
    f64_: fn(&[u8]) -> (f64, &[u8]),
    f32_: fn(&[u8]) -> (f32, &[u8]),
}

macro_rules! subj {
    ($m:ident) => {
        Subject { name: stringify!($m), available: $m::AVAILABLE, specials: $m::SPECIALS, f64_: $m::entry::<f64>, f32_: $m::entry::<f32> }
    };
}

fn subjects() -> Vec<Subject> {
    vec![subj!(front_example), subj!(front_fuzz), subj!(front_itest), subj!(front_golang), subj!(front_unittests), subj!(front_random), subj!(front_rng)]
}

#[derive(Debug, Clone, PartialEq)]
enum Want {
    Nan,
    Inf,
    Number { int: Vec<u8>, frac: Vec<u8>, exp: i128 },
}

struct Scan {
    negative: bool,
    want: Want,
    consumed: usize,
    class: &'static str,
}

fn ci_prefix(b: &[u8], pat: &[u8]) -> bool {
    b.len() >= pat.len() && b.iter().zip(pat).all(|(x, y)| x.to_ascii_lowercase() == y.to_ascii_lowercase())
}

/// Reference scanner: [+-]? digits* (. digits*)? ([eE] [+-]? digits*)?  - longest match.
fn scan(s: &[u8], specials: bool) -> Scan {
    let mut i = 0;
    let mut negative = false;
    if i < s.len() && (s[i] == b'+' || s[i] == b'-') {
        negative = s[i] == b'-';
        i += 1;
    }
    if specials {
        let r = &s[i..];
        if ci_prefix(r, b"nan") {
            return Scan { negative, want: Want::Nan, consumed: i + 3, class: "special_nan" };
        }
        if ci_prefix(r, b"infinity") {
            return Scan { negative, want: Want::Inf, consumed: i + 8, class: "special_infinity" };
        }
        if ci_prefix(r, b"inf") {
            return Scan { negative, want: Want::Inf, consumed: i + 3, class: "special_inf" };
        }
    }
    let st = i;
    while i < s.len() && s[i].is_ascii_digit() {
        i += 1;
    }
    let int = s[st..i].to_vec();
    let mut frac = Vec::new();
    let mut has_point = false;
    if i < s.len() && s[i] == b'.' {
        has_point = true;
        i += 1;
        let fs = i;
        while i < s.len() && s[i].is_ascii_digit() {
            i += 1;
        }
        frac = s[fs..i].to_vec();
    }
    let mut exp: i128 = 0;
    let mut has_exp = false;
    let mut exp_digits = 0;
    if i < s.len() && (s[i] == b'e' || s[i] == b'E') {
        has_exp = true;
        i += 1;
        let mut eneg = false;
        if i < s.len() && (s[i] == b'+' || s[i] == b'-') {
            eneg = s[i] == b'-';
            i += 1;
        }
        while i < s.len() && s[i].is_ascii_digit() {
            if exp < (1i128 << 100) {
                exp = exp * 10 + (s[i] - b'0') as i128;
            }
            exp_digits += 1;
            i += 1;
        }
        if eneg {
            exp = -exp;
        }
    }
    let class = match (int.is_empty(), has_point, frac.is_empty(), has_exp, exp_digits) {
        (true, false, _, false, _) => "no_number",
        (_, _, _, true, 0) => "exp_marker_without_digits",
        (true, true, true, _, _) => "point_without_digits",
        (false, false, _, false, _) => "integer",
        (_, true, false, false, _) => "decimal",
        (_, _, _, true, _) => "scientific",
        _ => "other",
    };
    Scan { negative, want: Want::Number { int, frac, exp }, consumed: i, class }
}

struct Ctx {
    rep: Report,
    replay_dir: String,
}

impl Ctx {
    fn violation(&mut self, subject: &str, fmt: Fmt, input: &[u8], what: &str, observed: &str, expected: &str) {
        let mut h = Hasher64::new();
        h.bytes(input).bytes(subject.as_bytes());
        let sig = format!("{}:{}:{}:{:016x}", what, subject, fmt.name, h.finish());
        let file = format!("{}/C19-{}-{}-{:016x}.json", self.replay_dir, config_name(), profile_name(), h.finish());
        let body = format!(
            "{{\"property\":\"C19\",\"engine\":\"eng_front\",\"config\":{},\"profile\":{},\"fmt\":{},\"subject\":{},\"what\":{},\"input\":{},\"observed\":{},\"expected\":{},\"replay_args\":[\"--input-hex\",{}]}}\n",
            json_str(config_name()),
            json_str(profile_name()),
            json_str(fmt.name),
            json_str(subject),
            json_str(what),
            json_str(&util::show(input)),
            json_str(observed),
            json_str(expected),
            json_str(&util::hex(input))
        );
        let _ = std::fs::create_dir_all(&self.replay_dir);
        if self.rep.violations.len() < 40 {
            // replay files only for the witnesses that are reported (the rest are counted)
            let _ = std::fs::write(&file, body);
        }
        let detail = format!("\"subject\":{},\"fmt\":{},\"input\":{},\"observed\":{},\"expected\":{}", json_str(subject), json_str(fmt.name), json_str(&util::show(input)), json_str(observed), json_str(expected));
        self.rep.violation(&sig, what, &file, &detail);
    }

    fn one(&mut self, subs: &[Subject], input: &[u8], tag: &'static str) {
        self.rep.count(&format!("gen.{}", tag));
        let mut h = Hasher64::new();
        h.bytes(input);
        self.rep.distinct(h.finish());
        let mut scans: [Option<Scan>; 2] = [None, None];
        for s in subs {
            if !s.available {
                continue;
            }
            let si = s.specials as usize;
            if scans[si].is_none() {
                let sc = scan(input, s.specials);
                self.rep.count(&format!("class.{}", sc.class));
                self.rep.max("max.suffix_len", (input.len() - sc.consumed) as i64);
                self.rep.max("max.input_len", input.len() as i64);
                if let Want::Number { exp, .. } = &sc.want {
                    if *exp > i32::MAX as i128 || *exp < i32::MIN as i128 {
                        self.rep.count("class.exponent_beyond_i32");
                    }
                }
                scans[si] = Some(sc);
            }
            for fmt in [F64, F32] {
                self.rep.evals += 1;
                let r = util::catch(|| {
                    if fmt.mant_bits == 52 {
                        let (v, rest) = (s.f64_)(input);
                        (v.to_bits(), rest.len(), rest.as_ptr() as usize)
                    } else {
                        let (v, rest) = (s.f32_)(input);
                        (v.to_bits() as u64, rest.len(), rest.as_ptr() as usize)
                    }
                });
                let sc = scans[si].as_ref().unwrap();
                let (bits, rest_len, rest_ptr) = match r {
                    Ok(x) => x,
                    Err(msg) => {
                        let loc = util::last_panic_loc();
                        self.violation(s.name, fmt, input, "panic", &format!("panic at {}: {}", loc, msg), "a value and a suffix");
                        continue;
                    }
                };
                // suffix: exactly the unconsumed tail of the input
                let want_rest = input.len() - sc.consumed;
                let tail_ok = rest_len == want_rest && (rest_len == 0 || rest_ptr == input.as_ptr() as usize + sc.consumed);
                if !tail_ok {
                    self.violation(s.name, fmt, input, "wrong-suffix", &format!("{} bytes left", rest_len), &format!("{} bytes left ({})", want_rest, util::show(&input[sc.consumed..])));
                    continue;
                }
                let sign = bits & fmt.sign_bit() != 0;
                let mag = bits & !fmt.sign_bit();
                match &sc.want {
                    Want::Nan => {
                        if !fmt.is_nan(bits) {
                            self.violation(s.name, fmt, input, "wrong-special", &bits_hex(fmt, bits), "NaN");
                        }
                    }
                    Want::Inf => {
                        if mag != fmt.inf_bits() || sign != sc.negative {
                            self.violation(s.name, fmt, input, "wrong-special", &bits_hex(fmt, bits), if sc.negative { "-inf" } else { "+inf" });
                        }
                    }
                    Want::Number { int, frac, exp } => {
                        // the fuzz/test copies return +0.0 with the whole input when nothing at all (not even a sign) was consumed
                        let e = (*exp).clamp(-(1i128 << 40), 1i128 << 40) as i64;
                        let d = Dec::from_parts(int, frac, e);
                        let mut ok = oracle::check(&d, fmt, mag);
                        if ok && sign != sc.negative {
                            ok = false;
                        }
                        if !ok {
                            let want = oracle::round(&d, fmt) | if sc.negative { fmt.sign_bit() } else { 0 };
                            self.violation(s.name, fmt, input, "wrong-value", &bits_hex(fmt, bits), &bits_hex(fmt, want));
                        }
                    }
                }
            }
        }
        self.rep.sample(|| format!("{{\"input\":{},\"hex\":{}}}", json_str(&util::show(input)), json_str(&util::hex(&input[..input.len().min(64)]))));
    }
}

fn digits_payload(rng: &Rng, fmt: Fmt) -> (Vec<u8>, Vec<u8>, i64) {
    let c = match rng.below(6) {
        0 | 1 => gen::g1(&mut rng.clone_advance(), fmt),
        2 => gen::g3(&mut rng.clone_advance(), fmt),
        3 => gen::g5(&mut rng.clone_advance(), fmt),
        4 => gen::g_seam(&mut rng.clone_advance(), fmt),
        _ => gen::g9(&mut rng.clone_advance(), fmt),
    };
    if c.ndigits() > 1200 {
        return (b"1".to_vec(), b"5".to_vec(), 0);
    }
    (c.int, c.frac, c.exp as i64)
}

fn gen_string(rng: &Rng) -> (Vec<u8>, &'static str) {
    let mut s: Vec<u8> = Vec::new();
    let kind = rng.below(20);
    match kind {
        0 => {
            // special literals in random case, maybe truncated / extended, with signs
            let lit: &[u8] = *rng.pick(&[&b"nan"[..], b"inf", b"infinity", b"in", b"infinit", b"na", b"infinityx", b"nanx", b"infx", b"i", b"n"]);
            match rng.below(3) {
                0 => s.push(b'-'),
                1 => s.push(b'+'),
                _ => {}
            }
            for &c in lit {
                s.push(if rng.chance(1, 2) { c.to_ascii_uppercase() } else { c });
            }
            if rng.chance(1, 3) {
                s.extend_from_slice(b" tail");
            }
            return (s, "specials");
        }
        1 => {
            // pure random bytes (all 256 values)
            let n = rng.below(24) as usize;
            for _ in 0..n {
                s.push(rng.next() as u8);
            }
            return (s, "random_bytes");
        }
        2 => {
            // random bytes from the float alphabet
            let n = rng.below(30) as usize;
            let alpha = b"0123456789+-.eE0019nNaAiIfFtTyY ";
            for _ in 0..n {
                s.push(*rng.pick(alpha));
            }
            return (s, "alphabet_soup");
        }
        3 if rng.chance(1, 25) => {
            // a very long run of zeros cancelled by an equally large exponent: "0." 0{N} digits "e" (N+k)  or  digits 0{N} "e-" (N-k),
            // N up to 3 x 10^6 and biased to just beyond the places where a narrowed or prematurely saturated exponent breaks
            let n = if rng.chance(1, 2) {
                (100.0 * (30000.0f64).powf(rng.below(1 << 20) as f64 / (1u64 << 20) as f64)) as usize
            } else {
                let base = *rng.pick(&[1usize << 15, 1 << 16, 10 << 16, 1 << 20, 1 << 21, 100_000, 1_000_000]);
                base + rng.below(base as u64 / 10 + 2) as usize
            };
            let nd = rng.range(1, 20) as usize;
            let mut digits = vec![b'0'; nd];
            for d in digits.iter_mut() {
                *d = b'0' + rng.below(10) as u8;
            }
            digits[0] = b'1' + rng.below(9) as u8;
            let k = rng.range(-330, 310);
            match rng.below(3) {
                0 => s.push(b'-'),
                1 => s.push(b'+'),
                _ => {}
            }
            if rng.chance(1, 2) {
                s.extend_from_slice(b"0.");
                s.resize(s.len() + n, b'0');
                s.extend_from_slice(&digits);
                s.push(b'e');
                s.extend_from_slice((n as i64 + k).to_string().as_bytes());
            } else {
                s.extend_from_slice(&digits);
                s.resize(s.len() + n, b'0');
                if rng.chance(1, 3) {
                    s.extend_from_slice(b".000");
                }
                s.extend_from_slice(b"E-");
                s.extend_from_slice((n as i64 - k).to_string().as_bytes());
            }
            if rng.chance(1, 3) {
                s.extend_from_slice(b"x");
            }
            return (s, "compensated_long_zero_run");
        }
        _ => {}
    }
    // grammar-directed
    match rng.below(4) {
        0 => s.push(b'-'),
        1 => s.push(b'+'),
        _ => {}
    }
    let fmt = if rng.chance(1, 2) { F64 } else { F32 };
    let (int, frac, exp) = digits_payload(rng, fmt);
    // integer part with optional leading zeros
    let has_int = !rng.chance(1, 8);
    if has_int {
        if rng.chance(1, 4) {
            for _ in 0..rng.range(1, 5) {
                s.push(b'0');
            }
        }
        s.extend_from_slice(&int);
    }
    let has_point = !frac.is_empty() || rng.chance(1, 4);
    if has_point {
        s.push(b'.');
        if has_int || !frac.is_empty() {
            s.extend_from_slice(&frac);
            if rng.chance(1, 4) {
                for _ in 0..rng.range(1, 45) {
                    s.push(b'0');
                }
            }
        }
    }
    // exponent
    match rng.below(10) {
        0 => {}
        1 => s.push(*rng.pick(b"eE")), // marker without digits
        2 => {
            s.push(*rng.pick(b"eE"));
            s.push(*rng.pick(b"+-"));
        }
        3 => {
            // absurd exponents
            s.push(*rng.pick(b"eE"));
            if rng.chance(1, 2) {
                s.push(*rng.pick(b"+-"));
            }
            let e: &[u8] = *rng.pick(&[&b"2147483647"[..], b"2147483648", b"2147483649", b"4294967296", b"99999999999999999999999999", b"0000000000000000000000005", b"18446744073709551616", b"21474836470", b"9223372036854775808"]);
            s.extend_from_slice(e);
        }
        _ => {
            s.push(*rng.pick(b"eE"));
            let e = if has_int || true { exp } else { exp };
            // when the integer part is dropped the value changes; that is fine, the reference recomputes it
            if e < 0 {
                s.push(b'-');
            } else if rng.chance(1, 3) {
                s.push(b'+');
            }
            if rng.chance(1, 6) {
                s.extend_from_slice(b"000");
            }
            s.extend_from_slice(e.unsigned_abs().to_string().as_bytes());
        }
    }
    // suffix
    match rng.below(6) {
        0 => {}
        1 => s.extend_from_slice(b" narnia"),
        2 => s.push(rng.next() as u8),
        3 => s.extend_from_slice(*rng.pick(&[&b"e"[..], b".", b"..", b"e+", b"-", b"+1", b"E5", b".5", b"x1", b"\xff\xfe", b"\x00"])),
        _ => {
            for _ in 0..rng.below(6) {
                s.push(rng.next() as u8);
            }
        }
    }
    // mutation: random byte edits of an otherwise valid string
    if rng.chance(1, 6) && !s.is_empty() {
        for _ in 0..rng.range(1, 3) {
            let i = rng.below(s.len() as u64) as usize;
            match rng.below(3) {
                0 => s[i] = rng.next() as u8,
                1 => {
                    s.remove(i);
                    if s.is_empty() {
                        break;
                    }
                }
                _ => s.insert(i, *rng.pick(b"0123456789+-.eE\x00\xffx")),
            }
        }
        return (s, "mutated");
    }
    (s, "grammar")
}

trait CloneAdvance {
    fn clone_advance(&self) -> Rng;
}
impl CloneAdvance for Rng {
    /// An owned generator continuing this stream (the shared one is advanced past it).
    fn clone_advance(&self) -> Rng {
        let r = self.fork(self.next());
        r
    }
}

fn main() {
    let args = Args::parse();
    util::quiet_panics();
    let seed = args.u64("seed", 1);
    let shard = args.shard();
    let rep = Report::new("C19", &args);
    let mut ctx = Ctx { rep, replay_dir: args.str("replay-dir", "/verif/replays") };
    ctx.rep.extra.insert("config".into(), json_str(config_name()));
    ctx.rep.extra.insert("profile".into(), json_str(profile_name()));
    let subs = subjects();
    let names: Vec<String> = subs.iter().map(|s| format!("{{\"copy\":{},\"examined\":{},\"accepts_specials\":{}}}", json_str(s.name), s.available, s.specials)).collect();
    ctx.rep.extra.insert("copies".into(), format!("[{}]", names.join(",")));
    for s in &subs {
        if s.available {
            ctx.rep.count(&format!("copy.examined.{}", s.name));
        } else {
            ctx.rep.inconclusive(&format!("front-end copy {} could not be located in the working tree: not examined", s.name));
        }
    }
    if let Some(hx) = args.get("input-hex") {
        let input = util::unhex(hx);
        ctx.one(&subs, &input, "replay");
        println!("REPLAY {} -> {}", util::show(&input), if ctx.rep.nviol == 0 { "held" } else { "VIOLATED" });
        ctx.rep.finish();
        return;
    }
    let rng = Rng::new(seed).fork(0xC19).fork(shard.0 + 1);
    // fixed probes first (shard 0)
    if shard.0 == 0 {
        let probes: &[&[u8]] = &[
            b"", b"+", b"-", b".", b"-.", b"e", b"e5", b"-e5", b".e5", b"0", b"-0", b"-0.0", b"+0e0", b"-.0e-0", b"1", b"1.", b".1", b"1.e", b"1.e+", b"1e", b"1e+", b"1e-", b"1ex", b"1.0e7", b"12345.67 narnia",
            b"00001", b"0000.0001000", b"-000.000", b"1e00000000000000000000000000005", b"1e2147483647", b"1e2147483648", b"1e-2147483648", b"1e-2147483649", b"0e99999999999999999999", b"0.0e-99999999999999999999",
            b"nan", b"NaN", b"-nan", b"inf", b"-inf", b"+Infinity", b"infinit", b"INFINITY", b"iNf", b"nAn", b"in", b"-i", b"9007199254740993", b"9007199254740993.000000000000000000000000000000000000000000000000001",
            b"2.2250738585072011e-308", b"4.9406564584124654e-324", b"2.4703282292062327e-324", b"1.7976931348623158e308", b"1.7976931348623159e308", b"3.4028235677973366e38", b"16777217", b"\xff", b"1\xff", b"1.\x00",
        ];
        for p in probes {
            ctx.one(&subs, p, "probe");
        }
    }
    let max = args.u64("max-evals", u64::MAX);
    let mut i = 0u64;
    while ctx.rep.evals < max {
        if i % 32 == 0 && ctx.rep.out_of_time() {
            break;
        }
        i += 1;
        let (s, tag) = gen_string(&rng);
        ctx.one(&subs, &s, tag);
    }
    for k in ["class.integer", "class.decimal", "class.scientific", "class.no_number", "class.exp_marker_without_digits", "class.point_without_digits", "class.special_nan", "class.special_inf", "class.special_infinity", "class.exponent_beyond_i32", "gen.grammar", "gen.mutated", "gen.random_bytes", "gen.specials", "gen.compensated_long_zero_run"] {
        ctx.rep.require(k);
    }
    ctx.rep.finish();
}
