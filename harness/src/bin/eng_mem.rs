//! C08: `parse_float` on arbitrary bytes (and on hostile valid input) with no oracle at all:
//! the judge is the interpreter / sanitizer the binary runs under (Miri Stacked Borrows, Miri
//! Tree Borrows, ASan, valgrind). A clean panic is allowed and counted. Everything returned is
//! folded into a hash that the runner compares with the native run of the same seed.

use mlverif::rng::{Hasher64, Rng};
use mlverif::util::{self, json_str, Args, Report};
use mlverif::{config_name, profile_name};

fn parse_both(int: &[u8], frac: &[u8], exp: i32, h: &mut Hasher64, rep: &mut Report) {
    for f64_ in [true, false] {
        let r = util::catch(|| {
            if f64_ {
                minimal_lexical::parse_float::<f64, _, _>(int.iter(), frac.iter(), exp).to_bits()
            } else {
                minimal_lexical::parse_float::<f32, _, _>(int.iter(), frac.iter(), exp).to_bits() as u64
            }
        });
        rep.evals += 1;
        match r {
            Ok(b) => {
                h.u64(b);
                rep.count("returned");
                if PRINT.load(std::sync::atomic::Ordering::Relaxed) {
                    eprintln!("RESULT {} {}:{}:{} -> {:x}", if f64_ { "f64" } else { "f32" }, util::hex(int), util::hex(frac), exp, b);
                }
            }
            Err(msg) => {
                h.u64(0xbad);
                rep.count("panicked_cleanly");
                let loc = util::last_panic_loc();
                let class = if msg.contains("overflow") {
                    "panic.arithmetic_overflow"
                } else if msg.contains("unwrap") || msg.contains("None") {
                    "panic.capacity_unwrap"
                } else if msg.contains("assert") {
                    "panic.debug_assertion"
                } else {
                    "panic.other"
                };
                rep.count(class);
                rep.count(&format!("panic_at.{}", loc.rsplit('/').next().unwrap_or("?")));
            }
        }
    }
}

static PRINT: std::sync::atomic::AtomicBool = std::sync::atomic::AtomicBool::new(false);

fn garbage(rng: &Rng, n: usize, style: u64) -> Vec<u8> {
    match style {
        0 => (0..n).map(|_| rng.next() as u8).collect(),
        1 => vec![0xff; n],
        2 => vec![0x00; n],
        3 => (0..n).map(|_| *rng.pick(b"/:")).collect(),
        4 => (0..n).map(|_| if rng.chance(9, 10) { rng.digit() } else { rng.next() as u8 }).collect(),
        5 => (0..n).map(|_| b':' + rng.below(198) as u8).collect(), // >= '0': no subtraction overflow, "digits" up to 207
        6 => {
            let mut v = vec![b'0'; n];
            for x in v.iter_mut().skip(n / 2) {
                *x = rng.digit();
            }
            v
        }
        _ => (0..n).map(|_| rng.digit()).collect(),
    }
}

fn pick_len(rng: &Rng) -> usize {
    match rng.below(12) {
        0 => 0,
        1 => 1,
        2 => 19,
        3 => 20,
        4 => 21,
        5 => rng.range(760, 780) as usize,
        6 => rng.range(110, 120) as usize,
        7 => rng.range(800, 900) as usize,
        8 => rng.range(2, 40) as usize,
        _ => rng.range(0, 200) as usize,
    }
}

fn pick_exp(rng: &Rng) -> i32 {
    match rng.below(10) {
        0 => *rng.pick(&[i32::MIN, i32::MIN + 1, i32::MAX, i32::MAX - 1, -4096, 4096, -0x1000, 0x1000]),
        1 => rng.range(-25, 40) as i32,
        2 => rng.range(-345, -300) as i32,
        3 => rng.range(280, 312) as i32,
        4 => rng.range(-1200, -700) as i32,
        5 => rng.next() as i32,
        _ => rng.range(-400, 400) as i32,
    }
}

/// Cases aimed at every unchecked-index site with *valid* digits.
fn targeted(rng: &Rng, k: u64) -> (Vec<u8>, Vec<u8>, i32) {
    let d = |rng: &Rng, n: usize| -> Vec<u8> {
        let mut v: Vec<u8> = (0..n).map(|_| rng.digit()).collect();
        if n > 0 && v[0] == b'0' {
            v[0] = b'7';
        }
        v
    };
    match k % 12 {
        0 => (d(rng, rng.range(1, 15) as usize), vec![], *rng.pick(&[-23, -22, -21, 21, 22, 23, 36, 37, 38])), // f64 fast / disguised limits
        1 => (d(rng, rng.range(1, 7) as usize), vec![], *rng.pick(&[-11, -10, -9, 9, 10, 11, 16, 17, 18])),   // f32 limits
        2 => (d(rng, rng.range(1, 4) as usize), vec![], rng.range(22, 37) as i32),                            // disguised shifts 0..15
        3 => (d(rng, 19), d(rng, rng.range(1, 40) as usize), rng.range(-30, 30) as i32),                        // chunk counter 19
        4 => (d(rng, rng.range(765, 775) as usize), vec![], rng.range(-1100, -1040) as i32),                   // subnormal, max 5^k, pow remainders
        5 => (vec![], d(rng, rng.range(765, 775) as usize), rng.range(-330, -290) as i32),
        6 => (d(rng, rng.range(20, 40) as usize), vec![], rng.range(250, 292) as i32),                         // large positive_digit_comp: shl_limbs
        7 => (d(rng, rng.range(300, 320) as usize), vec![], rng.range(-5, 5) as i32),                          // near MAX as a long integer
        8 => (d(rng, rng.range(20, 60) as usize), d(rng, rng.range(1, 60) as usize), rng.range(-60, 60) as i32),
        9 => (d(rng, rng.range(112, 118) as usize), vec![], rng.range(-160, -100) as i32),                     // f32 cut-off
        10 => {
            // exponents that make pow() take k large steps and every remainder
            let e = -(rng.range(0, 1100) as i32);
            (d(rng, rng.range(20, 30) as usize), vec![], e)
        }
        _ => (d(rng, rng.range(1, 30) as usize), d(rng, rng.range(0, 30) as usize), pick_exp(rng)),
    }
}

fn main() {
    let args = Args::parse();
    util::quiet_panics();
    let seed = args.u64("seed", 1);
    let shard = args.shard();
    let mut rep = Report::new("C08", &args);
    rep.extra.insert("config".into(), json_str(config_name()));
    rep.extra.insert("profile".into(), json_str(profile_name()));
    let rng = Rng::new(seed).fork(0xC08).fork(shard.0 + 1);
    let max = args.u64("max-evals", u64::MAX);
    let announce = args.has("announce");
    // valid inputs only (for the cross-platform differential: what garbage does may legitimately depend on the word size)
    let valid_only = args.has("valid-only");
    PRINT.store(args.has("print-results"), std::sync::atomic::Ordering::Relaxed);
    let mut h = Hasher64::new();
    if let Some(k) = args.get("case") {
        let p: Vec<&str> = k.split(':').collect();
        parse_both(&util::unhex(p[0]), &util::unhex(p[1]), p[2].parse().unwrap(), &mut h, &mut rep);
        rep.finish();
        return;
    }
    let mut limb_corpus = args.get("corpus-limb").map(mlverif::gen::read_digit_corpus).unwrap_or_default();
    // the interpreters are slow on long inputs: their jobs (and the native twins, which must see the same cases) cap the length
    let limb_max = args.u64("limb-max-digits", u64::MAX) as usize;
    let max_digits = args.u64("max-digits", u64::MAX) as usize;
    limb_corpus.retain(|(d, _)| d.len() <= limb_max);
    rep.extra.insert("limb_structured_corpus_entries".into(), format!("{}", limb_corpus.len()));
    let mut i = 0u64;
    while rep.evals < max {
        if rep.out_of_time() {
            break;
        }
        i += 1;
        let (int, frac, exp, tag) = if i % 8 == 7 && !limb_corpus.is_empty() {
            // near-halfway integers whose big-integer image has whole zero limbs (multiples of 2^(64k), two islands): the
            // zero-limb special cases of the multi-limb arithmetic, reached through the public entry point
            let mut r2 = rng.fork(rng.next());
            match mlverif::gen::limb_struct_case(&mut r2, &limb_corpus) {
                Some(c) => (c.int, c.frac, c.exp, "limb_structured_valid"),
                None => (b"1".to_vec(), vec![], 0, "limb_structured_valid"),
            }
        } else if valid_only && i % 2 == 0 {
            let (a, b, e) = targeted(&rng, i / 2);
            (a, b, e, "targeted_valid")
        } else if valid_only {
            // near-halfway long inputs: the big-integer path (32-bit limbs on a 32-bit target)
            let fmt = if rng.chance(2, 3) { mlverif::oracle::F64 } else { mlverif::oracle::F32 };
            let mut r2 = rng.fork(rng.next());
            let mut c = if rng.chance(1, 5) { mlverif::gen::g1x(&mut r2, fmt) } else { mlverif::gen::g1(&mut r2, fmt) };
            if c.ndigits() > 1200 {
                c = mlverif::gen::Case::new(b"9007199254740993", b"00000000000000000000000000001", 0, "x");
            }
            (c.int, c.frac, c.exp, "near_halfway_valid")
        } else if i % 16 == 9 || i % 16 == 13 {
            // an input a hair from a rounding boundary (so that the moderate stage declines and the big-integer
            // path runs), valid (13) or with 1..3 bytes corrupted (9): garbage that reaches deep code
            let fmt = if rng.chance(2, 3) { mlverif::oracle::F64 } else { mlverif::oracle::F32 };
            let mut r2 = rng.fork(rng.next());
            let mut c = mlverif::gen::g1(&mut r2, fmt);
            if c.ndigits() > 1200 {
                c = mlverif::gen::Case::new(b"9007199254740993", b"00000000000000000000000000001", 0, "x");
            }
            if i % 16 == 9 {
                for _ in 0..rng.range(1, 3) {
                    let n = c.int.len() + c.frac.len();
                    if n == 0 {
                        break;
                    }
                    let pos = if rng.chance(1, 3) { 0 } else { rng.below(n as u64) as usize };
                    let b = match rng.below(6) {
                        0 => b':',
                        1 => b'/',
                        2 => 0xff,
                        3 => 0x00,
                        4 => b':' + rng.below(20) as u8,
                        _ => rng.next() as u8,
                    };
                    if pos < c.int.len() {
                        c.int[pos] = b;
                    } else {
                        c.frac[pos - c.int.len()] = b;
                    }
                }
                (c.int, c.frac, c.exp, "near_halfway_corrupted")
            } else {
                (c.int, c.frac, c.exp, "near_halfway_valid")
            }
        } else if i % 16 == 5 {
            // zero significands: empty or all '0' (valid as a fraction; a precondition violation as an integer), any exponent
            let z = |rng: &Rng| -> Vec<u8> { vec![b'0'; *rng.pick(&[0usize, 0, 1, 2, 5, 18, 19, 20, 40])] };
            let e = match rng.below(4) {
                0 => rng.range(20, 70) as i32,
                1 => rng.range(-70, -20) as i32,
                _ => pick_exp(&rng),
            };
            (z(&rng), z(&rng), e, "zero_significand")
        } else if i % 3 == 0 {
            let (a, b, e) = targeted(&rng, i / 3);
            (a, b, e, "targeted_valid")
        } else {
            let style = rng.below(8);
            let (n1, n2) = (pick_len(&rng), pick_len(&rng));
            let a = garbage(&rng, n1, style);
            let b = if rng.chance(1, 4) { vec![] } else { garbage(&rng, n2, if rng.chance(1, 2) { style } else { rng.below(8) }) };
            (a, b, pick_exp(&rng), ["bytes_random", "bytes_ff", "bytes_00", "bytes_slash_colon", "digits_with_garbage", "bytes_ge_0x3a", "leading_zeros", "digits_any"][style as usize])
        };
        let (int, frac, exp) = if int.len() + frac.len() > max_digits {
            // (slow interpreters: long inputs are replaced by a short slow-path one)
            (b"9007199254740993".to_vec(), b"00000000000000000000000000001".to_vec(), 0)
        } else {
            (int, frac, exp)
        };
        if announce {
            eprintln!("CASE {}:{}:{}", util::hex(&int), util::hex(&frac), exp);
        }
        rep.count(&format!("gen.{}", tag));
        rep.max("max.len", (int.len() + frac.len()) as i64);
        let mut hh = Hasher64::new();
        hh.bytes(&int).bytes(&frac).u64(exp as u64);
        rep.distinct(hh.finish());
        if rep.samples.len() < 10 && i % 7 == 1 {
            rep.samples.push(format!("{{\"integer\":{},\"fraction\":{},\"exponent\":{},\"kind\":{}}}", json_str(&util::show(&int)), json_str(&util::show(&frac)), exp, json_str(tag)));
        }
        parse_both(&int, &frac, exp, &mut h, &mut rep);
    }
    rep.extra.insert("result_hash".into(), format!("\"{:016x}\"", h.finish()));
    rep.extra.insert("lean".into(), "true".into());
    rep.finish();
}
