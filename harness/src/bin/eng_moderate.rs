//! C11: the extended-precision middle stage (Eisel-Lemire in default builds,
//! Bellerophon in compact builds) called directly: a definite answer must be the
//! correctly rounded value of w*10^q and, if digits were dropped, of every real
//! in [w, w+1)*10^q. Declining (negative biased exponent) is always allowed.

use minimal_lexical::extended_float::ExtendedFloat;
use minimal_lexical::number::Number;
use minimal_lexical::parse::moderate_path;
use mlverif::gen;
use mlverif::oracle::{self, Dec, Fmt, F32, F64};
use mlverif::rng::{Hasher64, Rng};
use mlverif::sink;
use mlverif::util::{self, json_str, Args, Report};
use mlverif::{bits_hex, config_name, profile_name};

fn stage(fmt: Fmt, which: u8, num: &Number) -> ExtendedFloat {
    match (fmt.mant_bits, which) {
        (52, 0) => moderate_path::<f64>(num),
        (_, 0) => moderate_path::<f32>(num),
        #[cfg(not(feature = "compact"))]
        (52, _) => minimal_lexical::lemire::lemire::<f64>(num),
        #[cfg(not(feature = "compact"))]
        (_, _) => minimal_lexical::lemire::lemire::<f32>(num),
        #[cfg(feature = "compact")]
        (52, _) => minimal_lexical::bellerophon::bellerophon::<f64>(num),
        #[cfg(feature = "compact")]
        (_, _) => minimal_lexical::bellerophon::bellerophon::<f32>(num),
    }
}

struct Ctx {
    rep: Report,
    replay_dir: String,
}

fn dec_of(w: u128, q: i64) -> Dec {
    Dec::from_digits(w.to_string().as_bytes(), q)
}

impl Ctx {
    fn one(&mut self, fmt: Fmt, w: u64, q: i32, trunc: bool, tag: &'static str) {
        let trunc = trunc && w >= 1 && w < u64::MAX;
        let num = Number { exponent: q, mantissa: w, many_digits: trunc };
        let which = (self.rep.evals % 2) as u8;
        sink::reset();
        let r = util::catch(|| stage(fmt, which, &num));
        let p = sink::path();
        self.rep.evals += 1;
        self.rep.count(&format!("tag.{}", tag));
        let key = format!("{}:{}:{}:{}", fmt.name, w, q, trunc as u8);
        let fp = match r {
            Ok(fp) => fp,
            Err(msg) => {
                let loc = util::last_panic_loc();
                self.violation(fmt, &key, "panic", &format!("panic at {}: {}", loc, msg), "decline or a definite float");
                return;
            }
        };
        if p.lemire_second {
            self.rep.count("branch.lemire_second_product");
        }
        if p.lemire_tie {
            self.rep.count("branch.lemire_tie_to_even");
        }
        if p.lemire_subnormal {
            self.rep.count("branch.lemire_subnormal");
        }
        if p.lemire_fallback {
            self.rep.count("branch.lemire_lo_max_fallback");
        }
        if p.lemire_w1_differs {
            self.rep.count("branch.lemire_w_w1_disagree");
        }
        if p.bellero {
            self.rep.count("branch.bellerophon_error_check");
            self.rep.max("max.bellerophon_errors", p.bellero_errors.min(i64::MAX as u64) as i64);
        }
        if fp.exp < 0 {
            self.rep.count(if trunc { "declined.truncated" } else { "declined.exact" });
            return;
        }
        self.rep.count(if trunc { "definite.truncated" } else { "definite.exact" });
        let mut h = Hasher64::new();
        h.u64(w).u64(q as i64 as u64).u64(trunc as u64 + 2 * fmt.mant_bits as u64);
        self.rep.distinct(h.finish());
        // pack like extended_to_float
        if fp.mant > fmt.frac_mask() + fmt.hidden() || fp.exp as u64 > (fmt.inf_bits() >> fmt.mant_bits) {
            self.violation(fmt, &key, "malformed-definite", &format!("mant={:x} exp={}", fp.mant, fp.exp), "fields within the format");
            return;
        }
        let bits = fp.mant | ((fp.exp as u64) << fmt.mant_bits);
        let lo = dec_of(w as u128, q as i64);
        let ok = if trunc { oracle::check_interval(&lo, &dec_of(w as u128 + 1, q as i64), fmt, bits) } else { oracle::check(&lo, fmt, bits) };
        self.rep.sample(|| format!("{{\"fmt\":{},\"w\":\"{}\",\"q\":{},\"truncated\":{},\"definite_bits\":{},\"tag\":{}}}", json_str(fmt.name), w, q, trunc, json_str(&bits_hex(fmt, bits)), json_str(tag)));
        if ok {
            return;
        }
        let want_lo = oracle::round(&lo, fmt);
        if !trunc {
            if want_lo == bits {
                self.rep.inconclusive(&format!("ORACLE-DISAGREEMENT check!=round on {}", key));
                return;
            }
            // std as second referee
            if let Some(s) = oracle::std_parse(fmt, w.to_string().as_bytes(), b"", q as i64) {
                if s != want_lo {
                    self.rep.inconclusive(&format!("ORACLE-DISAGREEMENT oracle={} std={} on {}", bits_hex(fmt, want_lo), bits_hex(fmt, s), key));
                    return;
                }
            }
            self.violation(fmt, &key, "confidently-wrong", &bits_hex(fmt, bits), &bits_hex(fmt, want_lo));
        } else {
            // some real in [w, w+1) rounds elsewhere: name the witness end
            let hi = dec_of(w as u128 + 1, q as i64);
            let exp = format!("decline, or the common rounding of [w,w+1)*10^q: round(w)={} ; (w+1)*10^q {} the upper midpoint of the answer", bits_hex(fmt, want_lo), if hi > oracle::upper_mid(fmt, bits.min(fmt.max_finite_bits())) { "exceeds" } else { "does not exceed" });
            self.violation(fmt, &key, "confidently-wrong-truncated", &bits_hex(fmt, bits), &exp);
        }
    }

    fn violation(&mut self, fmt: Fmt, key: &str, what: &str, observed: &str, expected: &str) {
        let mut h = Hasher64::new();
        h.bytes(key.as_bytes());
        let sig = format!("{}:{}", what, key);
        let file = format!("{}/C11-{}-{}-{:016x}.json", self.replay_dir, config_name(), profile_name(), h.finish());
        let body = format!(
            "{{\"property\":\"C11\",\"engine\":\"eng_moderate\",\"config\":{},\"profile\":{},\"fmt\":{},\"what\":{},\"wq_key\":{},\"observed\":{},\"expected\":{},\"replay_args\":[\"--wq\",{}]}}\n",
            json_str(config_name()),
            json_str(profile_name()),
            json_str(fmt.name),
            json_str(what),
            json_str(key),
            json_str(observed),
            json_str(expected),
            json_str(key)
        );
        let _ = std::fs::create_dir_all(&self.replay_dir);
        if self.rep.violations.len() < 40 {
            // replay files only for the witnesses that are reported (the rest are counted)
            let _ = std::fs::write(&file, body);
        }
        let detail = format!("\"case\":{},\"observed\":{},\"expected\":{}", json_str(key), json_str(observed), json_str(expected));
        self.rep.violation(&sig, what, &file, &detail);
    }
}

fn structured_w(rng: &mut Rng) -> u64 {
    match rng.below(8) {
        0 => *rng.pick(&[0u64, 1, 2, 3, 5, 9, 10, u64::MAX, u64::MAX - 1, u64::MAX - 2, 1 << 63, (1 << 63) - 1, (1 << 63) + 1, 9_999_999_999_999_999_999, 10_000_000_000_000_000_000, 999_999_999_999_999_999, 1_000_000_000_000_000_000]),
        1 => {
            let k = rng.below(64);
            ((1u64 << k) as i128 + rng.range(-2, 2) as i128).clamp(0, u64::MAX as i128) as u64
        }
        2 => {
            let k = rng.below(20) as u32;
            (10u64.pow(k.min(19)) as i128 + rng.range(-2, 2) as i128).clamp(0, u64::MAX as i128) as u64
        }
        3 => rng.next(),
        4 => 1_000_000_000_000_000_000u64 + rng.below(9_000_000_000_000_000_000u64),
        _ => rng.structured_u64(),
    }
}

fn pick_q(rng: &mut Rng, fmt: Fmt) -> i32 {
    let (lo, hi) = if fmt.mant_bits == 52 { (-342i64, 308i64) } else { (-65, 38) };
    let q = match rng.below(12) {
        0 => lo + rng.range(-3, 3),
        1 => hi + rng.range(-3, 3),
        2 => rng.range(-30, 60),
        3 => *rng.pick(&[-0x1000i64, -0x1001, -0xfff, 0x1000, 0xfff, 0x1001, -5000, 5000, i32::MIN as i64, i32::MIN as i64 + 1, i32::MAX as i64, i32::MAX as i64 - 1, -65536, 65536, -32768, 32767, 1 << 20, -(1 << 20)]),
        4 => rng.range(-400, 400),
        5 => {
            // tie windows and one step outside
            if fmt.mant_bits == 52 {
                rng.range(-6, 25)
            } else {
                rng.range(-19, 12)
            }
        }
        _ => rng.range(lo, hi),
    };
    q.clamp(i32::MIN as i64, i32::MAX as i64) as i32
}

fn main() {
    let args = Args::parse();
    util::quiet_panics();
    let seed = args.u64("seed", 1);
    let shard = args.shard();
    let rep = Report::new("C11", &args);
    let mut ctx = Ctx { rep, replay_dir: args.str("replay-dir", "/verif/replays") };
    ctx.rep.extra.insert("config".into(), json_str(config_name()));
    ctx.rep.extra.insert("profile".into(), json_str(profile_name()));
    ctx.rep.extra.insert("stage".into(), json_str(if cfg!(feature = "compact") { "bellerophon" } else { "eisel-lemire" }));
    if let Some(k) = args.get("wq") {
        let p: Vec<&str> = k.split(':').collect();
        let fmt = mlverif::fmt_of(p[0]);
        ctx.one(fmt, p[1].parse().unwrap(), p[2].parse().unwrap(), p[3] == "1", "replay");
        // both entry points
        ctx.one(fmt, p[1].parse().unwrap(), p[2].parse().unwrap(), p[3] == "1", "replay");
        println!("REPLAY {} -> {}", k, if ctx.rep.nviol == 0 { "held" } else { "VIOLATED" });
        ctx.rep.finish();
        return;
    }
    let mut rng = Rng::new(seed).fork(0xC11).fork(shard.0 + 1);
    let c64 = args.get("corpus64").map(gen::read_corpus).unwrap_or_default();
    let c32 = args.get("corpus32").map(gen::read_corpus).unwrap_or_default();
    let c64s = args.get("corpus64s").map(gen::read_corpus).unwrap_or_default();
    let c32s = args.get("corpus32s").map(gen::read_corpus).unwrap_or_default();
    // the whole hard-case corpus once (sharded), exact and truncated, with neighbours
    for (fmt, corp) in [(F64, &c64), (F32, &c32), (F64, &c64s), (F32, &c32s)] {
        for (i, &(w, q)) in corp.iter().enumerate() {
            if i as u64 % shard.1 != shard.0 {
                continue;
            }
            for dw in [-1i64, 0, 1] {
                let w2 = (w as i128 + dw as i128).clamp(0, u64::MAX as i128) as u64;
                for t in [false, true] {
                    ctx.one(fmt, w2, q, t, "CFHARD");
                    ctx.one(fmt, w2, q, t, "CFHARD"); // second entry point (evals parity)
                }
            }
        }
    }
    // bounded-exhaustive: every significand below `small_w` x every decimal exponent in and just beyond the
    // table range x exact/truncated x both formats (sharded by exponent)
    let small_w = args.u64("small-w", 0);
    if small_w > 0 {
        for (fmt, lo, hi) in [(F64, -350i32, 315i32), (F32, -70, 45)] {
            let mut q = lo + shard.0 as i32;
            while q <= hi {
                for w in 0..small_w {
                    for t in [false, true] {
                        ctx.one(fmt, w, q, t, "SMALL_W_EXHAUSTIVE");
                    }
                }
                q += shard.1 as i32;
            }
        }
        ctx.rep.extra.insert("small_w_exhaustive_below".into(), format!("{}", small_w));
    }
    ctx.rep.extra.insert("corpus_entries_f64".into(), format!("{}", c64.len()));
    ctx.rep.extra.insert("corpus_entries_f32".into(), format!("{}", c32.len()));
    ctx.rep.extra.insert("corpus_short_entries_f64".into(), format!("{}", c64s.len()));
    ctx.rep.extra.insert("corpus_short_entries_f32".into(), format!("{}", c32s.len()));
    let mut i = 0u64;
    loop {
        if i % 64 == 0 && ctx.rep.out_of_time() {
            break;
        }
        i += 1;
        let fmt = if i % 2 == 0 { F64 } else { F32 };
        match rng.below(10) {
            0 | 1 | 2 | 3 => {
                // ROUND17..20: prefixes of exact boundary expansions -> (w, q) and (w+1, q)
                let bits = gen::pick_float(&mut rng, fmt);
                let mid = rng.chance(5, 6) || bits == 0;
                let b = gen::boundary(fmt, bits, mid);
                let (s, e10) = b.d.digits_exp();
                let t = (rng.range(15, 20) as usize).min(s.len());
                let w: u128 = std::str::from_utf8(&s[..t]).unwrap().parse().unwrap();
                if w >= (1u128 << 64) - 1 {
                    continue;
                }
                let q = e10 + (s.len() - t) as i64;
                if q < i32::MIN as i64 || q > i32::MAX as i64 {
                    continue;
                }
                let dropped_nonzero = t < s.len();
                for dw in [0u64, 1] {
                    let w2 = w as u64 + dw;
                    ctx.one(fmt, w2, q as i32, dropped_nonzero && dw == 0, "BOUNDARY_PREFIX");
                    ctx.one(fmt, w2, q as i32, rng.chance(1, 2), "BOUNDARY_PREFIX");
                }
            }
            4 => {
                let c = gen::g5(&mut rng, fmt);
                let d = c.dec();
                let (s, e10) = d.digits_exp();
                if s.len() <= 19 && !d.is_zero() {
                    let w: u64 = std::str::from_utf8(s).unwrap().parse().unwrap();
                    // also unnormalized spellings: w*10^k, q-k
                    let k = rng.below(4) as u32;
                    let (w2, q2) = match w.checked_mul(10u64.pow(k)) {
                        Some(x) => (x, e10 - k as i64),
                        None => (w, e10),
                    };
                    ctx.one(fmt, w2, q2 as i32, false, "TIE19");
                    ctx.one(fmt, w2, q2 as i32, true, "TIE19");
                }
            }
            5 => {
                let (corp, _) = if fmt.mant_bits == 52 { (&c64, 0) } else { (&c32, 0) };
                if corp.is_empty() {
                    continue;
                }
                let (w, q) = corp[rng.below(corp.len() as u64) as usize];
                let w2 = (w as i128 + rng.range(-40, 40) as i128).clamp(0, u64::MAX as i128) as u64;
                let t = rng.chance(1, 2);
                ctx.one(fmt, w2, q, t, "CFNEAR");
            }
            6 | 7 => {
                let w = structured_w(&mut rng);
                let q = pick_q(&mut rng, fmt);
                let t = rng.chance(1, 2);
                ctx.one(fmt, w, q, t, "STRUCTURED");
            }
            _ => {
                let w = rng.next() >> rng.below(8);
                let q = pick_q(&mut rng, fmt);
                let t = rng.chance(1, 2);
                ctx.one(fmt, w, q, t, "RANDOM");
            }
        }
    }
    for k in ["definite.exact", "definite.truncated", "declined.truncated", "tag.CFHARD", "tag.BOUNDARY_PREFIX", "tag.TIE19"] {
        ctx.rep.require(k);
    }
    if cfg!(feature = "compact") {
        // (Eisel-Lemire practically never declines an exact significand; Bellerophon does)
        ctx.rep.require("declined.exact");
        ctx.rep.require("branch.bellerophon_error_check");
    } else {
        for k in ["branch.lemire_second_product", "branch.lemire_tie_to_even", "branch.lemire_subnormal", "branch.lemire_w_w1_disagree", "branch.lemire_lo_max_fallback"] {
            ctx.rep.require(k);
        }
    }
    ctx.rep.finish();
}
